"""Shape-concrete symbolic interpreter over the real Python ASTs.

Python semantics assumed (see DESIGN §2.4): ints are mathematical, strings are
ASCII, dicts are insertion ordered with concrete key sets per path, `upper`/
`lower` are ASCII case maps, `int(s)` is defined on [ws][+-]digits(_digits)*[ws].
Anything not modelled raises Unsupported (function out-of-reach), never a verdict.
"""
import ast
import copy as _copy

import z3

from . import smt
from .values import (BUILTIN_EXC_BASES, BoundMethod, Builtin, Closure, ExcClass, Infeasible, MDict, Method,
                     ModRef, Obj, Opaque, OSeq, PProd, PyRaise, SBool, SInt, SStr, Sym, Unsupported,
                     boolterm, intterm, is_sym, pyraise, strterm)
from .program import ClassRef, FuncRef
from .regex import regex_to_z3


class ReturnEx(Exception):
    def __init__(self, v):
        self.value = v


class BreakEx(Exception):
    pass


class ContinueEx(Exception):
    pass


class Env:
    __slots__ = ("vars", "parent", "module", "fref")

    def __init__(self, module, parent=None, fref=None):
        self.vars, self.parent, self.module, self.fref = {}, parent, module, fref

    def lookup(self, name):
        e = self
        while e is not None:
            if name in e.vars:
                return True, e.vars[name]
            e = e.parent
        return False, None


BUILTIN_NAMES = {
    "len", "isinstance", "list", "tuple", "dict", "set", "int", "str", "bool", "float", "abs", "range", "enumerate",
    "zip", "getattr", "setattr", "hasattr", "any", "all", "min", "max", "sorted", "reversed", "print", "type",
    "repr", "sum", "frozenset", "id", "callable", "iter", "next", "object", "open",
}
EXC_NAMES = set(BUILTIN_EXC_BASES) | {"Exception", "LookupError", "RuntimeError"}
MUTATORS = {"append", "extend", "update", "pop", "insert", "remove", "clear", "setdefault", "sort"}


class SplitView:
    """Lazy result of SStr.split(sep) (sep concrete, non-empty) - only the access
    patterns [0], [1], [-1], len() are modelled."""

    def __init__(self, s, sep):
        self.s, self.sep = s, sep


class ReMatch:
    def __init__(self, cond):
        self.cond = cond


class Interp:
    def __init__(self, prog, ctx, contracts=None, intrinsics=None, loop_specs=None):
        self.prog = prog
        self.ctx = ctx
        self.contracts = contracts or {}     # fref.key -> callable(interp, fref, args, kwargs) or NotImplemented
        self.intrinsics = intrinsics or {}   # name -> callable(interp, args, kwargs)
        self.loop_specs = loop_specs or {}   # (fref.key, ordinal) -> spec
        self.inlined = set()
        self.via_contract = set()
        self.depth = 0
        self.steps = 0
        self.loop_handler = None

    # ------------------------------------------------------------ symbols
    charsets = None     # name of a declared string symbol -> characters its pattern admits (set by the generator)
    nonempty = frozenset()   # names of declared string symbols whose pattern excludes the empty string
    no_lead_ws = frozenset()   # ... whose pattern (non-empty) cannot start with white space
    no_trail_ws = frozenset()  # ... cannot end with white space

    def fresh_str(self, hint="s", printable=True):
        t = self.ctx.fresh("str", hint)
        if printable:
            self.ctx.assume(z3.InRe(t, smt.PRINTABLE))
        return SStr(t)

    def unique_string_value(self, k):
        """the single value a string term can take under the current path condition, or None.
        (a key like f"{word.lower()}_index" where the path fixes word up to letter case); decided by cvc5:
        one model, then unsatisfiability of `term != model value`"""
        fresh = z3.String("unique!probe")
        asserts = list(self.ctx.pc) + [fresh == k.t]
        st, out, _ = smt.run_cvc5(asserts, 5)
        if st != "sat":
            return None
        val = smt.parse_model(out).get("unique!probe")
        if val is None:
            return None
        st2, _, _ = smt.run_cvc5(list(self.ctx.pc) + [k.t != z3.StringVal(val)], 5, want_model=False)
        return val if st2 == "unsat" else None

    def alphabet(self, t):
        """over-approximation (exact per declared pattern) of the characters a string term can contain, or None"""
        if self.charsets is None:
            return None
        if z3.is_string_value(t):
            return set(t.as_string())
        if z3.is_const(t) and t.decl().name() in self.charsets:
            return self.charsets[t.decl().name()]
        if z3.is_app(t) and t.num_args() == 1 and (t.decl().eq(smt.UPPER) or t.decl().eq(smt.LOWER)):
            inner = self.alphabet(t.arg(0))
            if inner is None:
                return None
            return {(c.upper() if t.decl().eq(smt.UPPER) else c.lower()) for c in inner}
        if z3.is_app(t) and t.decl().kind() == z3.Z3_OP_SEQ_CONCAT:
            out = set()
            for c in t.children():
                a = self.alphabet(c)
                if a is None:
                    return None
                out |= a
            return out
        return None

    def replace_over_concat(self, t, a, b):
        """replace_all(x1 ++ ... ++ xn, a, b) when no symbolic piece can contain any character of `a` (its declared
        alphabet is disjoint from a's characters): every occurrence of `a` then lies inside a run of literal
        pieces, so the replacement is done on the literal runs and the symbolic pieces pass through (exact)."""
        if not (isinstance(a, str) and len(a) >= 1 and isinstance(b, str)) or self.charsets is None:
            return None
        leaves = _concat_leaves(t)
        # no occurrence at all: some character of `a` can come neither from a literal piece nor from any symbolic piece
        alphas = [self.alphabet(lf) for lf in leaves]
        if all(al is not None for al in alphas):
            everything = set().union(*alphas) if alphas else set()
            if any(c not in everything for c in a):
                return SStr(t) if not z3.is_string_value(t) else t.as_string()
        runs = []
        for lf in leaves:
            if z3.is_string_value(lf):
                if runs and isinstance(runs[-1], str):
                    runs[-1] += lf.as_string()
                else:
                    runs.append(lf.as_string())
            elif z3.is_const(lf) and lf.decl().name() in self.charsets:
                if set(a) & self.charsets[lf.decl().name()]:
                    return None
                runs.append(lf)
            else:
                return None
        out = [z3.StringVal(r.replace(a, b)) if isinstance(r, str) else r for r in runs]
        if not out:
            return ""
        r = out[0] if len(out) == 1 else z3.Concat(*out)
        r = z3.simplify(r)
        return r.as_string() if z3.is_string_value(r) else SStr(r)

    # ------------------------------------------------------------ truth / equality
    def truth(self, v):
        if isinstance(v, SBool):
            return self.ctx.branch(v.t)
        if isinstance(v, SStr):
            return self.ctx.branch(z3.Length(v.t) > 0)
        if isinstance(v, SInt):
            return self.ctx.branch(v.t != 0)
        if isinstance(v, MDict):
            self.resolve_all(v)
            return len(v) > 0
        if isinstance(v, OSeq):
            if any(s[0] == "i" for s in v.segs):
                return True
            if not v.segs:
                return False
            return self.ctx.branch(z3.Or(*[self.seq_len_term(s[1]) > 0 for s in v.segs]))
        if isinstance(v, PProd):
            return len(v.slice) > 0
        if isinstance(v, (Obj, Closure, FuncRef, ClassRef, BoundMethod, Opaque, ReMatch)):
            if isinstance(v, ReMatch):
                return self.ctx.branch(v.cond)
            if isinstance(v, Opaque):
                # truthiness of an unmodelled result: an unknown that depends on that result only
                import json as _json
                from .engine import describe
                import hashlib as _hl
                # (a digest: the text may hold quotes / backslashes, which SMT-LIB symbols cannot)
                key = "truth<%s:%s>" % (v.fn, _hl.md5(_json.dumps([describe(a) for a in v.args], sort_keys=True, default=str).encode()).hexdigest()[:16])
                return self.ctx.branch(z3.Bool(key))
            return True
        if isinstance(v, SplitView):
            return True
        return bool(v)

    def to_sbool(self, v):
        """value -> python bool or SBool, without branching where possible"""
        if isinstance(v, (bool, SBool)):
            return v
        if isinstance(v, SStr):
            return SBool(z3.Length(v.t) > 0)
        if isinstance(v, SInt):
            return SBool(v.t != 0)
        return self.truth(v)

    def not_(self, b):
        if isinstance(b, SBool):
            return SBool(z3.Not(b.t))
        return not b

    def and_all(self, bs):
        ts = []
        for b in bs:
            if isinstance(b, SBool):
                ts.append(b.t)
            elif not b:
                return False
        if not ts:
            return True
        return SBool(z3.And(*ts)) if len(ts) > 1 else SBool(ts[0])

    def or_all(self, bs):
        ts = []
        for b in bs:
            if isinstance(b, SBool):
                ts.append(b.t)
            elif b:
                return True
        if not ts:
            return False
        return SBool(z3.Or(*ts)) if len(ts) > 1 else SBool(ts[0])

    def seq_len_term(self, term):
        return z3.Int("py_len<%s>" % (self.term_name(term),))

    def term_name(self, term):
        import re as _re
        import zlib
        if term[0] == "base":
            raw = term[1]
        else:
            raw = "%s[%s](%s)" % (term[0], term[1], self.term_name(term[2]))
        clean = _re.sub(r"[^A-Za-z0-9_.:#\[\]()=-]", "_", raw)
        if clean != raw or len(clean) > 80:
            clean = clean[:60] + "~%08x" % (zlib.crc32(raw.encode()) & 0xFFFFFFFF)
        return clean

    def eq(self, a, b):
        """Python ==, returns bool or SBool."""
        if a is b and not isinstance(a, float):
            return True
        if isinstance(a, SStr) or isinstance(b, SStr):
            if isinstance(a, (SStr, str)) and isinstance(b, (SStr, str)):
                # a literal with a character outside the alphabet of the symbolic side cannot be equal to it (exact)
                for sym, lit in ((a, b), (b, a)):
                    if isinstance(sym, SStr) and isinstance(lit, str):
                        alpha = self.alphabet(sym.t)
                        if alpha is not None and any(c not in alpha for c in lit):
                            return False
                return SBool(strterm(a) == strterm(b))
            if isinstance(a, Opaque) or isinstance(b, Opaque):
                raise Unsupported("== between string and opaque value")
            return False
        if isinstance(a, SBool) or isinstance(b, SBool):
            if isinstance(a, (SBool, bool)) and isinstance(b, (SBool, bool)):
                return SBool(boolterm(a) == boolterm(b))
            if isinstance(a, (int, SInt)) or isinstance(b, (int, SInt)):
                ta = z3.If(a.t, 1, 0) if isinstance(a, SBool) else intterm(a)
                tb = z3.If(b.t, 1, 0) if isinstance(b, SBool) else intterm(b)
                return SBool(ta == tb)
            return False
        if isinstance(a, SInt) or isinstance(b, SInt):
            if isinstance(a, (SInt, int)) and isinstance(b, (SInt, int)):
                return SBool(intterm(a) == intterm(b))
            if isinstance(a, float) or isinstance(b, float):
                raise Unsupported("float == symbolic int")
            return False
        if isinstance(a, Opaque) or isinstance(b, Opaque):
            if isinstance(a, Opaque) and isinstance(b, Opaque):
                if a.fn != b.fn or len(a.args) != len(b.args):
                    return False      # results of different unmodelled computations are not provably equal
                return self.and_all([self.eq(x, y) for x, y in zip(a.args, b.args)])
            raise Unsupported("== between opaque and concrete value")
        if isinstance(a, dict) != isinstance(b, dict) and not isinstance(a, Opaque) and not isinstance(b, Opaque):
            return False            # a dict never equals a non-dict (no need to decide which optional keys are present)
        if isinstance(a, MDict):
            self.resolve_all(a)
        if isinstance(b, MDict):
            self.resolve_all(b)
        if isinstance(a, dict) and isinstance(b, dict):
            if set(a.keys()) != set(b.keys()):
                return False
            return self.and_all([self.eq(a[k], b[k]) for k in a])
        if isinstance(a, OSeq) or isinstance(b, OSeq):
            if isinstance(a, (list, OSeq)) and isinstance(b, (list, OSeq)):
                return self.oseq_eq(a, b)
            return False
        if isinstance(a, (list, tuple)) and isinstance(b, (list, tuple)):
            if isinstance(a, list) != isinstance(b, list):
                return False
            if len(a) != len(b):
                return False
            return self.and_all([self.eq(x, y) for x, y in zip(a, b)])
        if isinstance(a, (list, tuple, dict)) or isinstance(b, (list, tuple, dict)):
            return False
        if isinstance(a, (Obj, PProd)) or isinstance(b, (Obj, PProd)):
            return a is b
        try:
            return bool(a == b)
        except Unsupported:
            raise
        except Exception:
            return False

    def norm_segs(self, v):
        if isinstance(v, list):
            return [("i", x) for x in v]
        return list(v.segs)

    def oseq_eq(self, a, b):
        sa, sb = self.norm_segs(a), self.norm_segs(b)
        ka = [s[1] if s[0] == "o" else None for s in sa]
        kb = [s[1] if s[0] == "o" else None for s in sb]
        if ka == kb:
            return self.and_all([self.eq(x[1], y[1]) for x, y in zip(sa, sb) if x[0] == "i"])
        oa = sorted(str(k) for k in ka if k is not None)
        ob = sorted(str(k) for k in kb if k is not None)
        if oa == ob and ka.count(None) != kb.count(None):
            return False   # same opaque parts, different number of explicit items: lengths differ
        # drop opaque segments that the path condition forces to be empty, then retry once
        def prune(segs):
            out = []
            for s in segs:
                if s[0] == "o" and not self.ctx.feasible(self.seq_len_term(s[1]) > 0):
                    continue
                out.append(s)
            return out
        pa, pb = prune(sa), prune(sb)
        if (len(pa), len(pb)) != (len(sa), len(sb)):
            return self.oseq_eq(OSeq(pa), OSeq(pb))

        # sequences built from the same base by a different number of removals have different lengths
        def base_and_dels(term):
            d = 0
            while term[0] in ("del_at", "set_at"):
                d += term[0] == "del_at"
                term = term[2]
            return term, d
        if len(sa) == len(sb) == 1 and sa[0][0] == sb[0][0] == "o":
            (ba, da), (bb, db) = base_and_dels(sa[0][1]), base_and_dels(sb[0][1])
            if ba == bb and da != db:
                return False
        # one side is explicit (n items), the other has opaque parts around m explicit items:
        #   m > n: the other side is longer;   m == n: equal exactly when every opaque part is empty and the items agree
        for x, y in ((sa, sb), (sb, sa)):
            if all(s[0] == "i" for s in x) and any(s[0] == "o" for s in y):
                n, m = len(x), sum(1 for s in y if s[0] == "i")
                if m > n:
                    return False
                if m == n:
                    empties = [SBool(self.seq_len_term(s[1]) == 0) for s in y if s[0] == "o"]
                    items = [self.eq(u[1], v[1]) for u, v in zip(x, [s for s in y if s[0] == "i"])]
                    return self.and_all(empties + items)
        raise Unsupported("equality of opaque sequences with different structure: %r vs %r" % (ka, kb))

    def contains(self, item, cont):
        if isinstance(cont, (str, SStr)):
            if not isinstance(item, (str, SStr)):
                raise pyraise("TypeError", "'in <string>' requires string as left operand")
            if isinstance(cont, str) and isinstance(item, str):
                return item in cont
            if isinstance(item, str) and isinstance(cont, SStr):
                # a literal with a character outside the alphabet of the subject cannot occur in it (exact)
                alpha = self.alphabet(cont.t)
                if alpha is not None and any(c not in alpha for c in item):
                    return False
            return SBool(z3.Contains(strterm(cont), strterm(item)))
        if isinstance(cont, MDict):
            if is_sym(item):
                self.resolve_all(cont)
            elif item in cont.maybe:
                self.resolve_key(cont, item)
        if isinstance(cont, (dict, set, frozenset)):
            keys = list(cont.keys()) if isinstance(cont, dict) else list(cont)
            if is_sym(item):
                return self.or_all([self.eq(item, k) for k in keys])
            if isinstance(item, (list, dict, OSeq)):
                raise pyraise("TypeError", "unhashable type")
            return item in cont
        if isinstance(cont, PProd):
            return self.or_all([self.eq(item, x) for x in cont.slice])
        import types as _types
        if isinstance(cont, _types.MappingProxyType):
            # read-only view of a native mapping (field metadata): native test for a concrete item
            if is_sym(item):
                return self.or_all([self.eq(item, k) for k in list(cont.keys())])
            return item in cont
        if isinstance(cont, OSeq):
            res = []
            for kind, x in cont.segs:
                if kind == "i":
                    res.append(self.eq(item, x))
                else:
                    if not isinstance(item, (str, SStr)):
                        raise Unsupported("membership of non-string in opaque sequence")
                    f = z3.Function("py_mem<%s>" % self.term_name(x), smt.S, smt.B)
                    res.append(SBool(f(strterm(item))))
            return self.or_all(res)
        if isinstance(cont, (list, tuple)):
            return self.or_all([self.eq(item, x) for x in cont])
        if isinstance(cont, Obj):
            it = self.prog and self.lookup_method(cont, "__iter__")
            if it is not None:
                return self.contains(item, list(cont.__dict__.keys()))
        raise Unsupported("membership in %s" % type(cont).__name__)

    # ------------------------------------------------------------ MDict
    def resolve_key(self, d, k):
        if isinstance(d, MDict) and k in d.maybe:
            cond = d.maybe.pop(k)
            if not self.ctx.branch(cond):
                dict.__delitem__(d, k)

    def resolve_all(self, d):
        for k in list(d.maybe):
            self.resolve_key(d, k)

    # ------------------------------------------------------------ functions
    def lookup_method(self, obj, name):
        cls = obj._cls
        if cls is None:
            return None
        if isinstance(cls, str):
            return self.prog.method(cls, name)
        for k in cls.__mro__:
            try:
                c = self.prog.find_class(k.__name__)
            except KeyError:
                continue
            if name in c.methods:
                return c.methods[name]
        return None

    def bind(self, node, args, kwargs, env, self_name=None):
        a = node.args
        params = [x.arg for x in a.posonlyargs + a.args]
        defaults = a.defaults
        args = list(args)
        kwargs = dict(kwargs or {})
        if len(args) > len(params) and not a.vararg:
            raise pyraise("TypeError", "too many positional arguments")
        for i, name in enumerate(params):
            if i < len(args):
                env.vars[name] = args[i]
            elif name in kwargs:
                env.vars[name] = kwargs.pop(name)
            else:
                di = i - (len(params) - len(defaults))
                if di < 0:
                    raise pyraise("TypeError", "missing argument %s" % name)
                env.vars[name] = self.ev(defaults[di], env.parent or env)
        if a.vararg:
            env.vars[a.vararg.arg] = tuple(args[len(params):])
        for kw, dflt in zip(a.kwonlyargs, a.kw_defaults):
            if kw.arg in kwargs:
                env.vars[kw.arg] = kwargs.pop(kw.arg)
            elif dflt is not None:
                env.vars[kw.arg] = self.ev(dflt, env.parent or env)
            else:
                raise pyraise("TypeError", "missing keyword-only argument %s" % kw.arg)
        if a.kwarg:
            env.vars[a.kwarg.arg] = kwargs
        elif kwargs:
            raise pyraise("TypeError", "unexpected keyword argument %s" % list(kwargs)[0])

    def call_ref(self, fref, args, kwargs=None, top=False):
        if not top and fref.key in self.contracts:
            r = self.contracts[fref.key](self, fref, args, kwargs or {})
            if r is not NotImplemented:
                self.via_contract.add(fref.key)
                return r[0]
        if not top:
            self.inlined.add(fref.key)
        env = Env(fref.module, None, fref)
        self.bind(fref.node, args, kwargs, env)
        self.depth += 1
        if self.depth > 60:
            raise Unsupported("recursion depth")
        gen = _is_generator(fref.node)
        if gen:
            # generator function: evaluated eagerly into the list of yielded values (exact for generator bodies
            # without side effects the consumer can observe; the repository's generators only enumerate fields)
            env.vars["$yielded"] = []
        try:
            self.exec_block(fref.node.body, env)
        except ReturnEx as r:
            return env.vars["$yielded"] if gen else r.value
        finally:
            self.depth -= 1
        return env.vars["$yielded"] if gen else None

    def ev_Yield(self, e, env):
        scope = env
        while scope is not None and "$yielded" not in scope.vars:
            scope = scope.parent
        if scope is None:
            raise Unsupported("yield outside a generator function")
        scope.vars["$yielded"].append(self.ev(e.value, env) if e.value is not None else None)
        return None

    def call_closure(self, c, args, kwargs=None):
        env = Env(c.module, c.env, getattr(c.env, "fref", None))
        self.bind(c.node, args, kwargs, env)
        if isinstance(c.node, ast.Lambda):
            return self.ev(c.node.body, env)
        self.depth += 1
        if self.depth > 60:
            raise Unsupported("recursion depth")
        try:
            self.exec_block(c.node.body, env)
        except ReturnEx as r:
            return r.value
        finally:
            self.depth -= 1
        return None

    # ------------------------------------------------------------ statements
    def exec_block(self, stmts, env):
        for s in stmts:
            self.exec_stmt(s, env)

    def exec_stmt(self, s, env):
        self.steps += 1
        if self.steps > 400000:
            raise Unsupported("step budget")
        if isinstance(s, ast.Expr):
            self.ev(s.value, env)
        elif isinstance(s, ast.Assign):
            v = self.ev(s.value, env)
            for t in s.targets:
                self.assign(t, v, env)
        elif isinstance(s, ast.AnnAssign):
            if s.value is not None:
                self.assign(s.target, self.ev(s.value, env), env)
        elif isinstance(s, ast.AugAssign):
            cur = self.ev(self._as_load(s.target), env)
            v = self.binop(s.op, cur, self.ev(s.value, env), inplace=True)
            self.assign(s.target, v, env)
        elif isinstance(s, ast.If):
            if self.truth(self.ev(s.test, env)):
                self.exec_block(s.body, env)
            else:
                self.exec_block(s.orelse, env)
        elif isinstance(s, ast.Return):
            raise ReturnEx(self.ev(s.value, env) if s.value else None)
        elif isinstance(s, ast.For):
            self.exec_for(s, env)
        elif isinstance(s, ast.While):
            n = 0
            broke = False
            while self.truth(self.ev(s.test, env)):
                n += 1
                if n > 500:
                    raise Unsupported("while loop bound")
                try:
                    self.exec_block(s.body, env)
                except BreakEx:
                    broke = True
                    break
                except ContinueEx:
                    continue
            if not broke:
                self.exec_block(s.orelse, env)
        elif isinstance(s, ast.Break):
            raise BreakEx()
        elif isinstance(s, ast.Continue):
            raise ContinueEx()
        elif isinstance(s, ast.Pass):
            pass
        elif isinstance(s, ast.Delete):
            for t in s.targets:
                self.delete(t, env)
        elif isinstance(s, ast.Try):
            self.exec_try(s, env)
        elif isinstance(s, ast.Raise):
            self.exec_raise(s, env)
        elif isinstance(s, ast.Assert):
            if not self.truth(self.ev(s.test, env)):
                raise pyraise("AssertionError")
        elif isinstance(s, ast.FunctionDef):
            env.vars[s.name] = Closure(s, env, env.module, s.name)
        elif isinstance(s, (ast.Import, ast.ImportFrom)):
            for a in s.names:
                nm = a.asname or a.name.split(".")[0]
                env.vars[nm] = ModRef(a.name if isinstance(s, ast.Import) else "%s.%s" % (s.module, a.name))
        elif isinstance(s, ast.With):
            # `with <opaque resource> as name:` - files only: the resource is an opaque value, entering / leaving it has no
            # modelled effect (A-OS)
            for item in s.items:
                v = self.ev(item.context_expr, env)
                if not isinstance(v, Opaque):
                    raise Unsupported("with statement over %s" % type(v).__name__)
                if item.optional_vars is not None:
                    self.assign(item.optional_vars, v, env)
            self.exec_block(s.body, env)
        elif isinstance(s, ast.Global):
            raise Unsupported("global statement")
        else:
            raise Unsupported("statement %s" % type(s).__name__)

    def _as_load(self, t):
        t2 = _copy.copy(t)
        t2.ctx = ast.Load()
        return t2

    def exec_raise(self, s, env):
        if s.exc is None:
            found, cur = env.lookup("$exc")
            if found and isinstance(cur, PyRaise):
                raise cur                       # re-raise the exception being handled
            raise Unsupported("bare raise outside an exception handler")
        v = self.ev(s.exc, env)
        if isinstance(v, ExcClass):
            raise PyRaise(v.name, None, v.bases)
        if isinstance(v, PyRaise):
            raise v
        raise Unsupported("raise of %r" % (v,))

    def exec_try(self, s, env):
        try:
            try:
                self.exec_block(s.body, env)
            except PyRaise as e:
                for h in s.handlers:
                    names = []
                    if h.type is None:
                        names = ["BaseException"]
                    elif isinstance(h.type, ast.Tuple):
                        names = [self.exc_name(x, env) for x in h.type.elts]
                    else:
                        names = [self.exc_name(h.type, env)]
                    if any(e.isa(n) for n in names):
                        if h.name:
                            env.vars[h.name] = e
                        saved = env.vars.get("$exc")
                        env.vars["$exc"] = e
                        try:
                            self.exec_block(h.body, env)
                        finally:
                            if saved is None:
                                env.vars.pop("$exc", None)
                            else:
                                env.vars["$exc"] = saved
                        break
                else:
                    raise
            else:
                self.exec_block(s.orelse, env)
        finally:
            if s.finalbody:
                self.exec_block(s.finalbody, env)

    def exc_name(self, node, env):
        v = self.ev(node, env)
        if isinstance(v, ExcClass):
            return v.name
        if isinstance(v, ClassRef):
            return v.name          # an exception class defined in the repository (its bases travel with the raised value)
        raise Unsupported("except clause %r" % (v,))

    def iter_values(self, it):
        """concrete iteration spine of a value (list of items) or raise Unsupported"""
        if isinstance(it, MDict):
            self.resolve_all(it)
        if isinstance(it, (list, tuple)):
            return list(it)
        if isinstance(it, dict):
            return list(it.keys())
        if isinstance(it, (set, frozenset)):
            return sorted(it, key=repr)
        if isinstance(it, PProd):
            return list(it.slice)
        if isinstance(it, str):
            return list(it)
        if isinstance(it, range):
            return list(it)
        if isinstance(it, OSeq):
            if all(s[0] == "i" for s in it.segs):
                return [s[1] for s in it.segs]
            raise Unsupported("iteration over opaque sequence")
        if isinstance(it, Obj) and self.lookup_method(it, "__iter__") is not None:
            return [k for k in it.__dict__.keys()]
        raise Unsupported("iteration over %s" % type(it).__name__)

    def exec_for(self, s, env):
        it = self.ev(s.iter, env)
        if self.loop_handler is not None:
            r = self.loop_handler(self, s, it, env)
            if r is not NotImplemented:
                return
        seq = self.iter_values(it)
        broke = False
        for x in seq:
            self.assign(s.target, x, env)
            try:
                self.exec_block(s.body, env)
            except BreakEx:
                broke = True
                break
            except ContinueEx:
                continue
        if not broke:
            self.exec_block(s.orelse, env)

    def assign(self, t, v, env):
        if isinstance(t, ast.Name):
            env.vars[t.id] = v
        elif isinstance(t, (ast.Tuple, ast.List)):
            seq = self.iter_values(v)
            if len(seq) != len(t.elts):
                raise pyraise("ValueError", "unpack")
            for tt, vv in zip(t.elts, seq):
                self.assign(tt, vv, env)
        elif isinstance(t, ast.Subscript):
            o = self.ev(t.value, env)
            if isinstance(t.slice, ast.Slice):
                sl = t.slice
                if sl.lower is None and sl.upper is None and sl.step is None and isinstance(o, list):
                    o[:] = list(self.iter_values(v))      # x[:] = ... replaces the contents in place
                    return
                raise Unsupported("slice assignment other than x[:] = ... on a list")
            k = self.ev(t.slice, env)
            self.setitem(o, k, v)
        elif isinstance(t, ast.Attribute):
            o = self.ev(t.value, env)
            if isinstance(o, Obj):
                setattr(o, t.attr, v)
            else:
                raise Unsupported("attribute store on %s" % type(o).__name__)
        else:
            raise Unsupported("assignment target %s" % type(t).__name__)

    def setitem(self, o, k, v):
        if isinstance(o, MDict) and not is_sym(k):
            o.maybe.pop(k, None)
        if isinstance(o, dict):
            if is_sym(k):
                kk = self.unique_string_value(k) if isinstance(k, SStr) else None
                if kk is None:
                    raise Unsupported("store under symbolic dict key")
                k = kk
            o[k] = v
        elif isinstance(o, list):
            if is_sym(k):
                raise Unsupported("store at symbolic list index")
            try:
                o[k] = v
            except IndexError:
                raise pyraise("IndexError", "list assignment index out of range")
        elif isinstance(o, PProd):
            if is_sym(k) or k < 0:
                raise Unsupported("PProd store index")
            try:
                o.slice[k] = v
            except IndexError:
                raise pyraise("IndexError")
        elif isinstance(o, OSeq):
            if isinstance(k, SInt):
                self.oseq_set_at(o, k, v)
                return
            idx = self.oseq_index(o, k)
            o.segs[idx] = ("i", v)
        elif isinstance(o, Obj) and self.lookup_method(o, "__setitem__") is None and isinstance(k, str):
            raise pyraise("TypeError", "object does not support item assignment")
        else:
            raise Unsupported("item store on %s" % type(o).__name__)

    def _found_by_idx(self, o, k):
        """the found-record whose position symbol is k, for the opaque sequence o currently holds"""
        if not (isinstance(k, SInt) and z3.is_const(k.t) and len(o.segs) == 1 and o.segs[0][0] == "o"):
            raise Unsupported("symbolic index into an opaque sequence")
        for (side, tag), rec in self.__dict__.get("found_records", {}).items():
            if side == getattr(self, "side", "fn") and rec["idx"].eq(k.t) and rec["term"] == o.segs[0][1]:
                return rec
        raise Unsupported("symbolic index that is not a search result of this sequence")

    def oseq_del_at(self, o, k):
        rec = self._found_by_idx(o, k)
        o.segs[:] = [("o", ("del_at", rec["tag"], rec["term"]))]

    def oseq_set_at(self, o, k, v):
        import json as _json
        from .engine import describe
        rec = self._found_by_idx(o, k)
        o.segs[:] = [("o", ("set_at", rec["tag"] + "=" + _json.dumps(describe(v), sort_keys=True, default=str), rec["term"]))]

    def oseq_index(self, o, k):
        if is_sym(k) or not isinstance(k, int):
            raise Unsupported("opaque sequence index")
        segs = o.segs
        if k >= 0:
            if all(s[0] == "i" for s in segs[: k + 1]) and k < len(segs):
                return k
        else:
            if -k <= len(segs) and all(s[0] == "i" for s in segs[k:]):
                return len(segs) + k
        raise Unsupported("index %r into opaque part of sequence" % (k,))

    def delete(self, t, env):
        if isinstance(t, ast.Subscript):
            o = self.ev(t.value, env)
            k = self.ev(t.slice, env)
            if isinstance(o, MDict) and not is_sym(k):
                self.resolve_key(o, k)
            if isinstance(o, dict):
                if is_sym(k):
                    raise Unsupported("del of symbolic key")
                if k not in o:
                    raise pyraise("KeyError", k)
                del o[k]
            elif isinstance(o, list):
                try:
                    del o[k]
                except IndexError:
                    raise pyraise("IndexError")
            elif isinstance(o, OSeq):
                if isinstance(k, SInt):
                    self.oseq_del_at(o, k)
                else:
                    del o.segs[self.oseq_index(o, k)]
            else:
                raise Unsupported("del on %s" % type(o).__name__)
        elif isinstance(t, ast.Name):
            if t.id in env.vars:
                del env.vars[t.id]
        elif isinstance(t, ast.Attribute):
            o = self.ev(t.value, env)
            if isinstance(o, Obj) and t.attr in o.__dict__:
                delattr(o, t.attr)
            else:
                raise pyraise("AttributeError", t.attr)
        else:
            raise Unsupported("del target")

    # ------------------------------------------------------------ expressions
    def binop(self, op, a, b, inplace=False):
        if isinstance(op, ast.Add):
            if isinstance(a, (str, SStr)) and isinstance(b, (str, SStr)):
                if isinstance(a, str) and isinstance(b, str):
                    return a + b
                return SStr(z3.Concat(strterm(a), strterm(b)))
            if isinstance(a, list) and isinstance(b, list):
                if inplace:
                    a.extend(b)
                    return a
                return a + b
            if isinstance(a, tuple) and isinstance(b, tuple):
                return a + b
            if isinstance(a, (list, OSeq)) and isinstance(b, (list, OSeq)):
                segs = self.norm_segs(a) + self.norm_segs(b)
                if inplace and isinstance(a, OSeq):
                    a.segs = segs
                    return a
                if inplace:
                    raise Unsupported("list += opaque sequence")
                return OSeq(segs)
            if self.is_intlike(a) and self.is_intlike(b):
                if not is_sym(a) and not is_sym(b):
                    return a + b
                return SInt(self.asint(a) + self.asint(b))
            if isinstance(a, (str, SStr)) or isinstance(b, (str, SStr)):
                raise pyraise("TypeError", "can only concatenate str to str")
        elif isinstance(op, ast.Sub):
            if self.is_intlike(a) and self.is_intlike(b):
                if not is_sym(a) and not is_sym(b):
                    return a - b
                return SInt(self.asint(a) - self.asint(b))
        elif isinstance(op, ast.Mult):
            if self.is_intlike(a) and self.is_intlike(b):
                if not is_sym(a) and not is_sym(b):
                    return a * b
                return SInt(self.asint(a) * self.asint(b))
            if not is_sym(a) and not is_sym(b):
                return a * b
        elif isinstance(op, ast.Mod):
            if isinstance(a, str):
                if self.has_sym(b) or isinstance(b, Obj) or (isinstance(b, tuple) and any(isinstance(x, Obj) for x in b)):
                    # rendering of a symbolic value into a message: an unconstrained string (over-approximation)
                    return self.fresh_str("fmt")
                return a % b
            if self.is_intlike(a) and self.is_intlike(b):
                if not is_sym(a) and not is_sym(b):
                    return a % b
                if not is_sym(b) and b > 0:
                    return SInt(self.asint(a) % b)
        elif isinstance(op, ast.FloorDiv):
            if not is_sym(a) and not is_sym(b):
                return a // b
        elif isinstance(op, ast.BitOr):
            if isinstance(a, (set, frozenset)) and isinstance(b, (set, frozenset)):
                return a | b
        raise Unsupported("binary %s on %s, %s" % (type(op).__name__, type(a).__name__, type(b).__name__))

    def is_intlike(self, v):
        return isinstance(v, (int, SInt, SBool)) and not isinstance(v, float)

    def asint(self, v):
        if isinstance(v, SBool):
            return z3.If(v.t, 1, 0)
        return intterm(v)

    def fmt(self, v, conv=None):
        if conv == ord("r"):
            if is_sym(v):
                raise Unsupported("repr of symbolic value")
            return repr(v)
        if isinstance(v, (str, SStr)):
            return v
        if isinstance(v, SInt):
            return SStr(z3.If(v.t >= 0, z3.IntToStr(v.t), z3.Concat(z3.StringVal("-"), z3.IntToStr(-v.t))))
        if isinstance(v, SBool):
            return SStr(z3.If(v.t, z3.StringVal("True"), z3.StringVal("False")))
        if isinstance(v, (int, float)) or v is None:
            return str(v)
        if isinstance(v, (list, tuple, dict)) and not self.has_sym(v):
            return str(v)
        if isinstance(v, MethodResult) and not self.has_sym(v.value):
            return "dict_%s(%r)" % (v.kind, v.value)
        if isinstance(v, (Obj, PProd, list, tuple, dict, OSeq, PyRaise)):
            return self.fresh_str("fmt")     # message text only: unconstrained string (over-approximation)
        raise Unsupported("format of %s" % type(v).__name__)

    def has_sym(self, v, seen=None):
        if is_sym(v) or isinstance(v, (OSeq, Opaque)):
            return True
        if isinstance(v, MDict) and v.maybe:
            return True
        if isinstance(v, dict):
            return any(self.has_sym(x) for x in v.values())
        if isinstance(v, (list, tuple, set)):
            return any(self.has_sym(x) for x in v)
        return False

    def cmp(self, op, a, b):
        f = {ast.Lt: lambda x, y: x < y, ast.Gt: lambda x, y: x > y, ast.LtE: lambda x, y: x <= y, ast.GtE: lambda x, y: x >= y}[type(op)]
        if isinstance(a, SplitLen) or isinstance(b, SplitLen):
            return self.splitlen_cmp(op, a, b)
        if self.is_intlike(a) and self.is_intlike(b):
            if not is_sym(a) and not is_sym(b):
                return f(a, b)
            return SBool(f(self.asint(a), self.asint(b)))
        if isinstance(a, str) and isinstance(b, str):
            return f(a, b)
        if not is_sym(a) and not is_sym(b) and not self.has_sym(a) and not self.has_sym(b):
            try:
                return f(a, b)
            except TypeError as e:
                raise pyraise("TypeError", str(e))
        raise Unsupported("ordering comparison on %s, %s" % (type(a).__name__, type(b).__name__))

    def splitlen_cmp(self, op, a, b):
        if isinstance(b, SplitLen):
            flip = {ast.Lt: ast.Gt, ast.Gt: ast.Lt, ast.LtE: ast.GtE, ast.GtE: ast.LtE, ast.Eq: ast.Eq, ast.NotEq: ast.NotEq}
            return self.splitlen_cmp(flip[type(op)](), b, a)
        if not isinstance(b, int):
            raise Unsupported("split length comparison")
        has = z3.Contains(strterm(a.view.s), z3.StringVal(a.view.sep))
        t = type(op)
        if (t is ast.GtE and b == 2) or (t is ast.Gt and b == 1) or (t is ast.NotEq and b == 1):
            return SBool(has)
        if (t is ast.Lt and b == 2) or (t is ast.LtE and b == 1) or (t is ast.Eq and b == 1):
            return SBool(z3.Not(has))
        if (t is ast.GtE and b <= 1) or (t is ast.Gt and b <= 0):
            return True
        raise Unsupported("split length compared with %r" % (b,))

    def ev(self, e, env):
        m = getattr(self, "ev_" + type(e).__name__, None)
        if m is None:
            raise Unsupported("expression %s" % type(e).__name__)
        return m(e, env)

    def ev_Constant(self, e, env):
        return e.value

    def ev_Name(self, e, env):
        found, v = env.lookup(e.id)
        if found:
            return v
        return self.global_name(env.module, e.id)

    def global_name(self, module, name):
        if name in self.intrinsics and (module.startswith("contracts") or module.startswith("verif_contracts")):
            return Builtin("intrinsic:" + name)
        r = self.prog.resolve_global(module, name)
        if r is not None:
            kind, v = r
            if kind == "func":
                if v.module.startswith("contracts") and v.node.name in self.intrinsics:
                    return Builtin("intrinsic:" + v.node.name)
                return v
            if kind == "class":
                return v
            if kind == "module":
                return ModRef(v)
            if kind == "const":
                return self.import_const(v)
            if kind == "ext":
                src, attr, val = v
                if src == "copy" and attr == "deepcopy":
                    return Builtin("deepcopy")
                if src == "collections" and attr == "defaultdict":
                    return Builtin("defaultdict")
                if src == "typing":
                    return None
                if src == "dataclasses":
                    return Builtin("dataclasses." + attr)
                if isinstance(val, type) and issubclass(val, BaseException):
                    return ExcClass(attr, [k.__name__ for k in val.__mro__[1:]])
                return ModRef("%s.%s" % (src, attr))
        if name in BUILTIN_NAMES:
            return Builtin(name)
        if name in EXC_NAMES:
            return ExcClass(name, BUILTIN_EXC_BASES.get(name, ()))
        if name in ("True", "False", "None"):
            return {"True": True, "False": False, "None": None}[name]
        raise Unsupported("unresolved name %s in %s" % (name, module))

    def import_const(self, v):
        """module-level constant of the real module -> interpreter value (same object for containers:
        module constants are shared state; mutation of them is visible, as in CPython)."""
        if isinstance(v, type):
            if issubclass(v, BaseException):
                return ExcClass(v.__name__, [k.__name__ for k in v.__mro__[1:]])
            try:
                return self.prog.find_class(v.__name__)
            except KeyError:
                raise Unsupported("foreign class %s" % v.__name__)
        return v

    def ev_List(self, e, env):
        out = []
        for x in e.elts:
            if isinstance(x, ast.Starred):
                out.extend(self.iter_values(self.ev(x.value, env)))
            else:
                out.append(self.ev(x, env))
        return out

    def ev_Tuple(self, e, env):
        return tuple(self.ev_List(e, env))

    def ev_Set(self, e, env):
        vals = [self.ev(x, env) for x in e.elts]
        if any(is_sym(v) for v in vals):
            raise Unsupported("set display with symbolic element")
        return set(vals)

    def ev_Dict(self, e, env):
        d = {}
        for k, v in zip(e.keys, e.values):
            if k is None:
                src = self.ev(v, env)
                if isinstance(src, MDict):
                    self.resolve_all(src)
                if not isinstance(src, dict):
                    raise Unsupported("** of non-dict")
                d.update(src)
                continue
            kk = self.ev(k, env)
            if is_sym(kk):
                raise Unsupported("symbolic key in dict display")
            d[kk] = self.ev(v, env)
        return d

    def ev_JoinedStr(self, e, env):
        out = ""
        for part in e.values:
            if isinstance(part, ast.Constant):
                v = part.value
            else:
                if part.format_spec is not None:
                    raise Unsupported("format spec")
                v = self.fmt(self.ev(part.value, env), part.conversion if part.conversion != -1 else None)
            out = self.binop(ast.Add(), out, v)
        return out

    def ev_BoolOp(self, e, env):
        v = None
        if isinstance(e.op, ast.And):
            for x in e.values:
                v = self.ev(x, env)
                if not self.truth(v):
                    return v
            return v
        for x in e.values:
            v = self.ev(x, env)
            if self.truth(v):
                return v
        return v

    def ev_UnaryOp(self, e, env):
        v = self.ev(e.operand, env)
        if isinstance(e.op, ast.Not):
            if isinstance(v, SBool):
                return SBool(z3.Not(v.t))
            return not self.truth(v)
        if isinstance(e.op, ast.USub):
            if isinstance(v, SInt):
                return SInt(-v.t)
            return -v
        raise Unsupported("unary op")

    def ev_IfExp(self, e, env):
        return self.ev(e.body, env) if self.truth(self.ev(e.test, env)) else self.ev(e.orelse, env)

    def ev_Compare(self, e, env):
        left = self.ev(e.left, env)
        results = []
        for op, r in zip(e.ops, e.comparators):
            right = self.ev(r, env)
            if isinstance(op, ast.Eq):
                if isinstance(left, SplitLen) or isinstance(right, SplitLen):
                    b = self.splitlen_cmp(op, left, right)
                else:
                    b = self.eq(left, right)
            elif isinstance(op, ast.NotEq):
                if isinstance(left, SplitLen) or isinstance(right, SplitLen):
                    b = self.splitlen_cmp(op, left, right)
                else:
                    b = self.not_(self.eq(left, right))
            elif isinstance(op, ast.In):
                b = self.contains(left, right)
            elif isinstance(op, ast.NotIn):
                b = self.not_(self.contains(left, right))
            elif isinstance(op, ast.Is):
                b = self.is_(left, right)
            elif isinstance(op, ast.IsNot):
                b = self.not_(self.is_(left, right))
            else:
                b = self.cmp(op, left, right)
            if len(e.ops) == 1:
                return b
            if not self.truth(b):
                return False
            left = right
        return True

    def is_(self, a, b):
        # re.match(...) is None  <=>  no match
        if isinstance(a, ReMatch) and b is None:
            return SBool(z3.Not(a.cond))
        if isinstance(b, ReMatch) and a is None:
            return SBool(z3.Not(b.cond))
        if isinstance(a, SBool) or isinstance(b, SBool):
            if isinstance(a, (bool, SBool)) and isinstance(b, (bool, SBool)):
                return SBool(boolterm(a) == boolterm(b))
            return False
        if is_sym(a) or is_sym(b):
            if a is b:
                return True
            if a is None or b is None or isinstance(a, bool) or isinstance(b, bool):
                return False
            raise Unsupported("identity test on symbolic value")
        if isinstance(a, (bool, type(None))) or isinstance(b, (bool, type(None))):
            return a is b
        if isinstance(a, (int, str)) and isinstance(b, (int, str)):
            raise Unsupported("identity test on int/str literals")
        return a is b

    def ev_BinOp(self, e, env):
        return self.binop(e.op, self.ev(e.left, env), self.ev(e.right, env))

    def ev_Lambda(self, e, env):
        return Closure(e, env, env.module)

    def ev_Starred(self, e, env):
        raise Unsupported("starred expression")

    def ev_ListComp(self, e, env):
        out = []
        self.comp(e.generators, 0, Env(env.module, env, env.fref), lambda en: out.append(self.ev(e.elt, en)))
        return out

    def ev_GeneratorExp(self, e, env):
        return self.ev_ListComp(e, env)

    def ev_SetComp(self, e, env):
        vals = self.ev_ListComp(e, env)
        if any(is_sym(v) for v in vals):
            raise Unsupported("set comprehension with symbolic element")
        return set(vals)

    def ev_DictComp(self, e, env):
        d = {}

        def add(en):
            k = self.ev(e.key, en)
            if is_sym(k):
                raise Unsupported("symbolic key in dict comprehension")
            d[k] = self.ev(e.value, en)
        self.comp(e.generators, 0, Env(env.module, env, env.fref), add)
        return d

    def comp(self, gens, i, env, emit):
        if i == len(gens):
            emit(env)
            return
        g = gens[i]
        it = self.ev(g.iter, env)
        if isinstance(it, MethodResult):
            it = it.value
        for x in self.iter_values(it):
            self.assign(g.target, x, env)
            if all(self.truth(self.ev(c, env)) for c in g.ifs):
                self.comp(gens, i + 1, env, emit)

    def ev_Subscript(self, e, env):
        o = self.ev(e.value, env)
        if isinstance(e.slice, ast.Slice):
            lo = self.ev(e.slice.lower, env) if e.slice.lower else None
            hi = self.ev(e.slice.upper, env) if e.slice.upper else None
            st = self.ev(e.slice.step, env) if e.slice.step else None
            return self.getslice(o, lo, hi, st)
        return self.getitem(o, self.ev(e.slice, env))

    def getslice(self, o, lo, hi, st):
        if is_sym(lo) or is_sym(hi) or is_sym(st):
            raise Unsupported("symbolic slice bound")
        if isinstance(o, (list, tuple, str)):
            return o[lo:hi:st]
        if isinstance(o, PProd):
            return o.slice[lo:hi:st]
        if st is not None:
            raise Unsupported("slice step")
        if isinstance(o, SStr):
            n = z3.Length(o.t)

            def pos(k, default):
                if k is None:
                    return default
                if k >= 0:
                    return z3.If(n < k, n, z3.IntVal(k))
                return z3.If(n + k < 0, z3.IntVal(0), n + k)
            a, b = pos(lo, z3.IntVal(0)), pos(hi, n)
            return SStr(z3.If(b > a, z3.SubString(o.t, a, b - a), z3.StringVal("")))
        if isinstance(o, OSeq):
            segs = o.segs
            if (lo is None or lo == 0) and hi is None:
                return OSeq(segs)
            if lo is not None and lo >= 0 and hi is None and all(s[0] == "i" for s in segs[:lo]) and lo <= len(segs):
                return OSeq(segs[lo:])
            if lo is not None and lo < 0 and hi is None and -lo <= len(segs) and all(s[0] == "i" for s in segs[lo:]):
                return [s[1] for s in segs[lo:]]
            raise Unsupported("slice of opaque sequence")
        if isinstance(o, SplitView):
            raise Unsupported("slice of split result")
        raise Unsupported("slice of %s" % type(o).__name__)

    def getitem(self, o, k):
        if isinstance(o, MDict) and not is_sym(k):
            self.resolve_key(o, k)
        if isinstance(o, dict):
            if isinstance(o, MDict) and is_sym(k):
                self.resolve_all(o)
            if is_sym(k):
                keys = [kk for kk in o if isinstance(kk, str) == isinstance(k, SStr)]
                for kk in keys:
                    if self.truth(self.eq(k, kk)):
                        return o[kk]
                raise pyraise("KeyError", "symbolic key")
            try:
                if k not in o:
                    if hasattr(o, "default_factory") and o.default_factory is not None:
                        o[k] = o.default_factory()
                        return o[k]
                    raise pyraise("KeyError", k)
            except TypeError:
                raise pyraise("TypeError", "unhashable key")
            return o[k]
        if isinstance(o, (list, tuple)):
            if is_sym(k):
                raise Unsupported("symbolic list index")
            if not isinstance(k, int):
                raise pyraise("TypeError", "list indices must be integers")
            try:
                return o[k]
            except IndexError:
                raise pyraise("IndexError", "index out of range")
        if isinstance(o, PProd):
            if is_sym(k):
                raise Unsupported("symbolic production index")
            if k < 0:
                raise Unsupported("negative production index (reads the parser stack)")
            try:
                return o.slice[k]
            except IndexError:
                raise pyraise("IndexError", "production index")
        if isinstance(o, str):
            if is_sym(k):
                raise Unsupported("symbolic string index")
            try:
                return o[k]
            except IndexError:
                raise pyraise("IndexError", "string index out of range")
        if isinstance(o, SStr):
            if is_sym(k):
                raise Unsupported("symbolic string index")
            n = z3.Length(o.t)
            ok = (n > k) if k >= 0 else (n >= -k)
            if not self.ctx.branch(ok):
                raise pyraise("IndexError", "string index out of range")
            return SStr(z3.SubString(o.t, k if k >= 0 else n + k, 1))
        if isinstance(o, OSeq):
            if isinstance(k, SInt):
                return self._found_by_idx(o, k)["elem"]
            return o.segs[self.oseq_index(o, k)][1]
        if isinstance(o, SplitView):
            return self.split_item(o, k)
        if isinstance(o, Obj):
            m = self.lookup_method(o, "__getitem__")
            if m is not None:
                return self.call_ref(m, [o, k])
            raise pyraise("TypeError", "object is not subscriptable")
        if o is None:
            raise pyraise("TypeError", "'NoneType' object is not subscriptable")
        if isinstance(o, (int, SInt, bool, SBool)):
            raise pyraise("TypeError", "'int' object is not subscriptable")
        raise Unsupported("subscript of %s" % type(o).__name__)

    def split_item(self, view, k):
        s, sep = strterm(view.s), z3.StringVal(view.sep)
        has = z3.Contains(s, sep)
        idx = z3.IndexOf(s, sep, 0)
        if k == 0:
            return SStr(z3.If(has, z3.SubString(s, 0, idx), s))
        if k == 1:
            if not self.ctx.branch(has):
                raise pyraise("IndexError", "list index out of range")
            rest = z3.SubString(s, idx + len(view.sep), z3.Length(s) - idx - len(view.sep))
            has2 = z3.Contains(rest, sep)
            return SStr(z3.If(has2, z3.SubString(rest, 0, z3.IndexOf(rest, sep, 0)), rest))
        if k == -1:
            r = self.ctx.fresh("str", "last")
            q = self.ctx.fresh("str", "init")
            self.ctx.assume(z3.Not(z3.Contains(r, sep)))
            self.ctx.assume(z3.Or(z3.And(z3.Not(has), r == s), s == z3.Concat(q, sep, r)))
            return SStr(r)
        raise Unsupported("split()[%r]" % (k,))

    def ev_Attribute(self, e, env):
        o = self.ev(e.value, env)
        return self.getattr(o, e.attr)

    def getattr(self, o, name):
        if isinstance(o, Obj):
            if name in o.__dict__:
                return o.__dict__[name]
            if name == "__dict__":
                return o.__dict__
            m = self.lookup_method(o, name)
            if m is not None:
                if m.kind == "staticmethod":
                    return m
                if m.kind == "classmethod":
                    return BoundMethod(m, o._cls)
                return BoundMethod(m, o)
            cls = o._cls
            if cls is not None and not isinstance(cls, str) and hasattr(cls, name):
                v = getattr(cls, name)
                if not callable(v) or isinstance(v, type):
                    return self.import_const(v)
            # an attribute the contract does not mention, on a parser object: its value right after construction
            # (immutable values only: numbers, flags, None, strings, compiled patterns)
            if cls is not None and not isinstance(cls, str) and cls.__name__ == "DDLParser":
                dflt = _fresh_parser_attr(cls, name)
                if dflt is not _MISSING:
                    return dflt
                # neither the contract's pre-state nor a freshly constructed parser has it: the attribute is set up elsewhere
                # on the run path (e.g. per run in parse_data).  The contract cannot say what it holds here: out of reach
                # for this contract (the bounded stand-in and the init-before-use clause still see it) - not an AttributeError
                raise Unsupported("parser attribute %r is not part of this contract's state (initialised elsewhere on the run path)" % name)
            raise pyraise("AttributeError", name)
        if isinstance(o, ModRef):
            if o.name in self.prog.trees:
                r = self.prog.resolve_global(o.name, name)
                if r is None:
                    sub = o.name + "." + name
                    if sub in self.prog.trees:
                        return ModRef(sub)
                    raise pyraise("AttributeError", name)
                kind, v = r
                if kind in ("func", "class"):
                    return v
                if kind == "module":
                    return ModRef(v)
                if kind == "const":
                    return self.import_const(v)
                raise Unsupported("module attribute %s.%s" % (o.name, name))
            return ModRef(o.name + "." + name)
        if isinstance(o, ClassRef):
            m = self.prog.method(o.name, name)
            if m is not None:
                if m.kind == "classmethod":
                    return BoundMethod(m, o)
                return m
            real = self.prog.real.get(o.module)
            if real is not None and hasattr(getattr(real, o.name, None), name):
                return self.import_const(getattr(getattr(real, o.name), name))
            raise pyraise("AttributeError", name)
        if isinstance(o, (str, SStr, list, dict, tuple, set, OSeq, PProd, SplitView)) or (isinstance(o, Opaque) and o.fn == "open"):
            return Method(o, name)
        if isinstance(o, PyRaise):
            if name == "args":
                return (o.msg,)
            raise Unsupported("exception attribute %s" % name)
        if o is None:
            raise pyraise("AttributeError", "'NoneType' object has no attribute %r" % name)
        if isinstance(o, (int, float, bool, SInt, SBool)):
            raise pyraise("AttributeError", "'%s' object has no attribute %r" % (type(o).__name__, name))
        # foreign concrete object (dataclasses.Field, mappingproxy, real class): native attribute
        try:
            v = getattr(o, name)
        except AttributeError:
            raise pyraise("AttributeError", name)
        if callable(v) and not isinstance(v, type):
            return Method(o, name)
        return v

    def ev_Call(self, e, env):
        f = self.ev(e.func, env)
        args = []
        for a in e.args:
            if isinstance(a, ast.Starred):
                args.extend(self.iter_values(self.ev(a.value, env)))
            else:
                args.append(self.ev(a, env))
        kwargs = {}
        for k in e.keywords:
            if k.arg is None:
                d = self.ev(k.value, env)
                if isinstance(d, MDict):
                    self.resolve_all(d)
                if not isinstance(d, dict):
                    raise Unsupported("** of non-dict")
                kwargs.update(d)
            else:
                kwargs[k.arg] = self.ev(k.value, env)
        return self.call(f, args, kwargs)

    def call(self, f, args, kwargs=None):
        kwargs = kwargs or {}
        if isinstance(f, Builtin):
            return self.call_builtin(f.name, args, kwargs)
        if isinstance(f, Method):
            return self.call_method(f.obj, f.name, args, kwargs)
        if isinstance(f, FuncRef):
            return self.call_ref(f, args, kwargs)
        if isinstance(f, BoundMethod):
            return self.call_ref(f.fref, [f.obj] + list(args), kwargs)
        if isinstance(f, Closure):
            return self.call_closure(f, args, kwargs)
        if isinstance(f, ClassRef):
            return self.instantiate(f, args, kwargs)
        if isinstance(f, ExcClass):
            msg = args[0] if args else None
            return PyRaise(f.name, msg, f.bases)
        if isinstance(f, ModRef):
            return self.call_external(f.name, args, kwargs)
        if f is None:
            raise pyraise("TypeError", "'NoneType' object is not callable")
        raise Unsupported("call of %r" % (f,))

    def instantiate(self, cref, args, kwargs):
        real = self.prog.real.get(cref.module)
        rc = getattr(real, cref.name, None) if real is not None else None
        if rc is not None and isinstance(rc, type) and issubclass(rc, BaseException):
            return PyRaise(cref.name, args[0] if args else None, [k.__name__ for k in rc.__mro__[1:]])
        return self.new_object(rc if rc is not None else cref.name, args, kwargs)

    def new_object(self, cls, args, kwargs):
        """cls: real class object (dataclass or plain) or class name"""
        o = Obj(cls)
        import dataclasses
        if not isinstance(cls, str) and dataclasses.is_dataclass(cls):
            if args:
                raise Unsupported("positional dataclass arguments")
            kw = dict(kwargs)
            for f in dataclasses.fields(cls):
                if f.name in kw:
                    setattr(o, f.name, kw.pop(f.name))
                elif f.default is not dataclasses.MISSING:
                    setattr(o, f.name, f.default)
                elif f.default_factory is not dataclasses.MISSING:
                    setattr(o, f.name, f.default_factory())
                else:
                    raise pyraise("TypeError", "missing dataclass argument %s" % f.name)
            if kw:
                raise pyraise("TypeError", "__init__() got an unexpected keyword argument %r" % list(kw)[0])
            m = self.lookup_method(o, "__post_init__")
            if m is not None:
                self.call_ref(m, [o])
            return o
        m = self.lookup_method(o, "__init__")
        if m is not None:
            self.call_ref(m, [o] + list(args), kwargs)
        elif args or kwargs:
            raise pyraise("TypeError", "object() takes no arguments")
        return o

    # ------------------------------------------------------------ builtins
    def call_builtin(self, n, args, kwargs):
        if n.startswith("intrinsic:"):
            return self.intrinsics[n[10:]](self, args, kwargs)
        m = getattr(self, "b_" + n.replace(".", "_"), None)
        if m is None:
            raise Unsupported("builtin %s" % n)
        return m(*args, **kwargs)

    def b_open(self, *a, **k):
        """open(path, mode, encoding=...): an opaque file object that is a function of its arguments (A-OS)"""
        if len(a) > 1 and isinstance(a[1], str) and any(c in a[1] for c in "wax+"):
            # creating / truncating a file is an observable effect: a ghost event, then the opaque file object
            self.__dict__.setdefault("ghost", []).append(["open-for-writing"] + list(a) + [k.get(n) for n in sorted(k)])
        return Opaque("open", list(a) + [k.get(n) for n in sorted(k)])

    def b_len(self, a):
        if isinstance(a, MDict):
            self.resolve_all(a)
        if isinstance(a, (list, tuple, dict, str, set, frozenset)):
            return len(a)
        if isinstance(a, PProd):
            return len(a.slice)
        if isinstance(a, SStr):
            return SInt(z3.Length(a.t))
        if isinstance(a, OSeq):
            n = sum(1 for s in a.segs if s[0] == "i")
            ts = [self.seq_len_term(s[1]) for s in a.segs if s[0] == "o"]
            for t in ts:
                self.ctx.assume(t >= 0)
            return SInt(z3.Sum(*ts) + n) if ts else n
        if isinstance(a, SplitView):
            return SplitLen(a)
        if a is None or isinstance(a, (int, SInt, bool, SBool)):
            raise pyraise("TypeError", "object has no len()")
        raise Unsupported("len of %s" % type(a).__name__)

    def b_isinstance(self, v, ty):
        tys = ty if isinstance(ty, tuple) else (ty,)
        return any(self.isinstance1(v, t) for t in tys)

    def isinstance1(self, v, t):
        if isinstance(t, Builtin):
            n = t.name
            if n == "str":
                return isinstance(v, (str, SStr))
            if n == "dict":
                return isinstance(v, dict)
            if n == "list":
                return isinstance(v, (list, OSeq))
            if n == "tuple":
                return isinstance(v, tuple)
            if n == "int":
                return isinstance(v, (int, SInt, SBool)) and not isinstance(v, float)
            if n == "bool":
                return isinstance(v, (bool, SBool))
            if n == "float":
                return isinstance(v, float)
            if n == "set":
                return isinstance(v, set)
            if n == "object":
                return True
        if isinstance(t, ClassRef):
            if isinstance(v, Obj) and v._cls is not None:
                names = self.prog.mro(v._cls) if isinstance(v._cls, str) else [k.__name__ for k in v._cls.__mro__]
                return t.name in names
            if isinstance(v, PyRaise):
                return v.isa(t.name)
            return False
        if isinstance(t, ExcClass):
            return isinstance(v, PyRaise) and v.isa(t.name)
        if isinstance(t, type):
            if isinstance(v, (Sym, Obj, OSeq, Opaque, PProd)):
                return False
            return isinstance(v, t)
        if t is None:
            return False
        raise Unsupported("isinstance against %r" % (t,))

    def b_list(self, a=None):
        if a is None:
            return []
        if isinstance(a, OSeq):
            return OSeq(a.segs)
        if isinstance(a, MethodResult):
            a = a.value
        if isinstance(a, EnumOSeq):
            return a
        return list(self.iter_values(a))

    def b_tuple(self, a=()):
        return tuple(self.iter_values(a))

    def b_set(self, a=()):
        vals = self.iter_values(a)
        if any(is_sym(v) for v in vals):
            raise Unsupported("set of symbolic values")
        return set(vals)

    def b_frozenset(self, a=()):
        return frozenset(self.b_set(a))

    def b_dict(self, a=None, **kw):
        d = {}
        if a is not None:
            if isinstance(a, MDict):
                self.resolve_all(a)
            if isinstance(a, dict):
                d.update(a)
            else:
                for kv in self.iter_values(a):
                    k, v = self.iter_values(kv)
                    if is_sym(k):
                        raise Unsupported("dict() with symbolic key")
                    d[k] = v
        d.update(kw)
        return d

    def b_defaultdict(self, factory=None):
        import collections
        if isinstance(factory, Builtin) and factory.name == "list":
            return collections.defaultdict(list)
        raise Unsupported("defaultdict factory")

    def b_int(self, a=0, base=None):
        if base is not None:
            raise Unsupported("int with base")
        if isinstance(a, SStr):
            ok = z3.InRe(a.t, smt.PYINT_DOMAIN)
            if not self.ctx.branch(ok):
                raise pyraise("ValueError", "invalid literal for int()")
            return SInt(smt.PYINT(a.t))
        if isinstance(a, SInt):
            return a
        if isinstance(a, SBool):
            return SInt(z3.If(a.t, 1, 0))
        if isinstance(a, (str, int, float, bool)):
            try:
                return int(a)
            except ValueError as e:
                raise pyraise("ValueError", str(e))
        raise pyraise("TypeError", "int() argument must be a string or a number, not %r" % type(a).__name__)

    def b_str(self, a=""):
        if isinstance(a, PyRaise):
            return a.msg if isinstance(a.msg, (str, SStr)) else str(a.msg)
        return self.fmt(a)

    def b_repr(self, a):
        return self.fmt(a, ord("r"))

    def b_bool(self, a=False):
        b = self.to_sbool(a)
        return b

    def b_abs(self, a):
        if isinstance(a, SInt):
            return SInt(z3.If(a.t >= 0, a.t, -a.t))
        return abs(a)

    def b_range(self, *a):
        if any(is_sym(x) for x in a):
            raise Unsupported("symbolic range")
        return list(range(*a))

    def b_enumerate(self, a, start=0):
        if isinstance(a, OSeq) and any(s[0] == "o" for s in a.segs):
            return EnumOSeq(a, start)
        return [(i, x) for i, x in enumerate(self.iter_values(a), start)]

    def b_zip(self, *a):
        return list(zip(*[self.iter_values(x) for x in a]))

    def b_reversed(self, a):
        return list(reversed(self.iter_values(a)))

    def b_sorted(self, a, key=None, reverse=False):
        vals = self.iter_values(a)
        if key is not None or any(self.has_sym(v) for v in vals):
            raise Unsupported("sorted with key / symbolic values")
        return sorted(vals, reverse=reverse)

    def b_any(self, a):
        for x in self.iter_values(a):
            if self.truth(x):
                return True
        return False

    def b_all(self, a):
        for x in self.iter_values(a):
            if not self.truth(x):
                return False
        return True

    def b_sum(self, a, start=0):
        r = start
        for x in self.iter_values(a):
            r = self.binop(ast.Add(), r, x)
        return r

    def b_min(self, *a):
        vals = self.iter_values(a[0]) if len(a) == 1 else list(a)
        if any(is_sym(v) for v in vals):
            return self._minmax(vals, False)
        return min(vals)

    def b_max(self, *a):
        vals = self.iter_values(a[0]) if len(a) == 1 else list(a)
        if any(is_sym(v) for v in vals):
            return self._minmax(vals, True)
        return max(vals)

    def _minmax(self, vals, want_max):
        """min / max over symbolic integers (if-then-else chain)"""
        if not vals or not all(self.is_intlike(v) for v in vals):
            raise Unsupported("min/max of non-integers")
        r = self.asint(vals[0])
        for v in vals[1:]:
            t = self.asint(v)
            r = z3.If(t > r, t, r) if want_max else z3.If(t < r, t, r)
        return SInt(r)

    def b_print(self, *a, **k):
        return None

    def b_callable(self, a):
        return isinstance(a, (FuncRef, Closure, BoundMethod, Builtin, Method, ClassRef))

    def b_type(self, a):
        if isinstance(a, (str, SStr)):
            return Builtin("str")
        if isinstance(a, (bool, SBool)):
            return Builtin("bool")
        if isinstance(a, (int, SInt)):
            return Builtin("int")
        if isinstance(a, dict):
            return Builtin("dict")
        if isinstance(a, (list, OSeq)):
            return Builtin("list")
        if isinstance(a, Obj):
            return a._cls
        raise Unsupported("type()")

    def b_getattr(self, o, name, *default):
        if is_sym(name):
            raise Unsupported("getattr with symbolic name")
        try:
            return self.getattr(o, name)
        except PyRaise as e:
            if e.name == "AttributeError" and default:
                return default[0]
            raise

    def b_setattr(self, o, name, v):
        if is_sym(name) or not isinstance(o, Obj):
            raise Unsupported("setattr")
        setattr(o, name, v)

    def b_hasattr(self, o, name):
        try:
            self.getattr(o, name)
            return True
        except PyRaise as e:
            if e.name == "AttributeError":
                return False
            raise

    def b_deepcopy(self, v):
        return self.deepcopy(v, {})

    def deepcopy(self, v, memo):
        if id(v) in memo:
            return memo[id(v)]
        if isinstance(v, MDict):
            r = MDict()
            memo[id(v)] = r
            for k, x in v.items():
                dict.__setitem__(r, k, self.deepcopy(x, memo))
            r.maybe = dict(v.maybe)
            return r
        if isinstance(v, dict):
            r = type(v)() if type(v) is dict else _copy.copy(v)
            r.clear()
            memo[id(v)] = r
            for k, x in v.items():
                r[k] = self.deepcopy(x, memo)
            return r
        if isinstance(v, list):
            r = []
            memo[id(v)] = r
            r.extend(self.deepcopy(x, memo) for x in v)
            return r
        if isinstance(v, tuple):
            return tuple(self.deepcopy(x, memo) for x in v)
        if isinstance(v, OSeq):
            r = OSeq([(k, self.deepcopy(x, memo) if k == "i" else x) for k, x in v.segs])
            memo[id(v)] = r
            return r
        if isinstance(v, PProd):
            r = PProd([self.deepcopy(x, memo) for x in v.slice])
            memo[id(v)] = r
            return r
        if isinstance(v, Obj):
            r = Obj(v._cls)
            memo[id(v)] = r
            for k, x in v.__dict__.items():
                if k != "_cls":
                    r.__dict__[k] = self.deepcopy(x, memo)
            return r
        return v

    def b_dataclasses_field(self, **kw):
        raise Unsupported("dataclasses.field at run time")

    # ------------------------------------------------------------ methods of built-in values
    def call_method(self, o, m, args, kwargs):
        if isinstance(o, (str, SStr)):
            return self.str_method(o, m, args, kwargs)
        if isinstance(o, MDict):
            return self.dict_method(o, m, args, kwargs)
        if isinstance(o, dict):
            return self.dict_method(o, m, args, kwargs)
        if isinstance(o, list):
            return self.list_method(o, m, args, kwargs)
        if isinstance(o, OSeq):
            return self.oseq_method(o, m, args, kwargs)
        if isinstance(o, tuple):
            if m == "index" or m == "count":
                return self.list_method(list(o), m, args, kwargs)
        if isinstance(o, set):
            if m == "add":
                if is_sym(args[0]):
                    raise Unsupported("set.add symbolic")
                o.add(args[0])
                return None
        if isinstance(o, Opaque) and o.fn == "open" and m == "read" and not args:
            return Opaque("file-content", list(o.args))
        if isinstance(o, SplitView):
            raise Unsupported("method %s of split result" % m)
        if isinstance(o, (Sym, Obj, OSeq, PProd)):
            raise Unsupported("method %s on %s" % (m, type(o).__name__))
        import re as _re
        if isinstance(o, _re.Pattern) and m in ("match", "search", "fullmatch", "sub") and not o.flags & ~_re.UNICODE:
            # compiled pattern: same as the module-level function with its pattern text
            return self.call_external("re." + m, [o.pattern] + list(args), kwargs)
        import logging as _logging
        if isinstance(o, _logging.Logger) and m in ("debug", "info", "warning", "error", "critical", "exception", "log"):
            return None         # logging calls are no-ops (listed in the trusted base)
        # foreign concrete object: native call when every argument is concrete
        if any(self.has_sym(a) for a in args) or any(self.has_sym(a) for a in kwargs.values()):
            raise Unsupported("native method %s.%s with symbolic argument" % (type(o).__name__, m))
        try:
            return getattr(o, m)(*args, **kwargs)
        except (KeyError, IndexError, ValueError, TypeError, AttributeError) as e:
            raise pyraise(type(e).__name__, str(e))

    def str_method(self, o, m, args, kwargs):
        if not is_sym(o) and not any(self.has_sym(a) for a in args):
            if m == "join":
                vals = self.iter_values(args[0])
                if any(not isinstance(v, str) for v in vals):
                    raise pyraise("TypeError", "sequence item: expected str instance")
                return o.join(vals)
            try:
                return getattr(o, m)(*args, **kwargs)
            except (ValueError, TypeError, IndexError) as e:
                raise pyraise(type(e).__name__, str(e))
        if m == "join":
            if is_sym(o):
                raise Unsupported("symbolic separator in join")
            seq = args[0]
            if isinstance(seq, OSeq):
                segs = seq.segs
                if all(s[0] == "i" for s in segs):
                    vals = [s[1] for s in segs]
                else:
                    raise Unsupported("join over opaque sequence")
            else:
                vals = self.iter_values(seq)
            out = None
            for v in vals:
                if not isinstance(v, (str, SStr)):
                    raise pyraise("TypeError", "sequence item: expected str instance, %s found" % type(v).__name__)
                out = v if out is None else self.binop(ast.Add(), self.binop(ast.Add(), out, o), v)
            return "" if out is None else out
        t = strterm(o)
        if m in ("upper", "lower"):
            # case mapping distributes over concatenation; it is the identity on a piece whose declared
            # alphabet has no letter of the other case (exact)
            f = smt.UPPER if m == "upper" else smt.LOWER
            leaves = _concat_leaves(t)
            if True:
                out = []
                for lf in leaves:
                    if z3.is_string_value(lf):
                        out.append(z3.StringVal(getattr(lf.as_string(), m)()))
                    elif (self.charsets is not None and z3.is_const(lf) and lf.decl().name() in self.charsets
                          and not any((c.islower() if m == "upper" else c.isupper()) for c in self.charsets[lf.decl().name()])):
                        out.append(lf)
                    elif z3.is_app(lf) and lf.decl().eq(f):
                        out.append(lf)          # case mapping is idempotent
                    else:
                        out.append(f(lf))
                        if z3.is_const(lf) and lf.decl().arity() == 0:
                            # lemma (true of ASCII case mapping): length and printability are preserved
                            self.ctx.assume(z3.Length(f(lf)) == z3.Length(lf))
                            self.ctx.assume(z3.InRe(f(lf), smt.PRINTABLE))
                r = z3.simplify(out[0] if len(out) == 1 else z3.Concat(*out))
                return r.as_string() if z3.is_string_value(r) else SStr(r)
            return SStr(f(t))
        if m in ("startswith", "endswith"):
            a = args[0]
            alts = list(a) if isinstance(a, tuple) else [a]
            f = z3.PrefixOf if m == "startswith" else z3.SuffixOf
            return self.or_all([SBool(f(strterm(x), t)) for x in alts])
        if m in ("isnumeric", "isdigit"):
            return SBool(z3.InRe(t, smt.DIG))
        if m in ("islower", "isupper"):
            other = z3.Range("A", "Z") if m == "islower" else z3.Range("a", "z")
            own = z3.Range("a", "z") if m == "islower" else z3.Range("A", "Z")
            rest = z3.Star(z3.Diff(z3.Range(" ", "~"), other)) if hasattr(z3, "Diff") else None
            if rest is None:
                raise Unsupported("str.%s" % m)
            return SBool(z3.InRe(t, z3.Concat(rest, own, rest)))
        if m == "count":
            c = args[0]
            if isinstance(c, str) and len(c) == 1:
                return SInt(z3.Length(t) - z3.Length(smt.REPLACE_ALL(t, z3.StringVal(c), z3.StringVal(""))))
            raise Unsupported("count of non single-character string")
        if m in ("strip", "rstrip", "lstrip"):
            if args:
                raise Unsupported("strip with argument")
            return self.strip(t, m)
        if m == "replace":
            a, b = args[0], args[1]
            if len(args) > 2:
                raise Unsupported("replace with count")
            if isinstance(a, str) and a == "":
                raise Unsupported("replace of empty string")
            if is_sym(a):
                raise Unsupported("replace with symbolic pattern")
            simp = self.replace_over_concat(t, a, b)
            if simp is not None:
                return simp
            return SStr(smt.REPLACE_ALL(t, strterm(a), strterm(b)))
        if m == "split":
            if len(args) == 1 and isinstance(args[0], str) and args[0]:
                return SplitView(o, args[0])
            if not args:
                words = self.split_structural(t)
                if words is not None:
                    return words
            raise Unsupported("split() form")
        if m == "format":
            if isinstance(o, str) and not kwargs:
                # a literal template with plain {} / {n} fields: concatenation of the pieces and the formatted arguments
                import string as _string
                out, auto = "", 0
                for lit, field, spec, conv in _string.Formatter().parse(o):
                    out = self.binop(ast.Add(), out, lit) if lit else out
                    if field is None:
                        continue
                    if spec or conv or not (field == "" or field.isdigit()):
                        raise Unsupported("str.format field %r" % field)
                    idx = int(field) if field else auto
                    auto += 1
                    if idx >= len(args):
                        raise pyraise("IndexError", "Replacement index out of range")
                    out = self.binop(ast.Add(), out, self.fmt(args[idx]))
                return out
            raise Unsupported("str.format with symbolic value")
        if m == "encode" or m == "decode":
            return Opaque("str." + m, [o] + list(args))      # bytes are not modelled: a function of the text and the codec
        if m == "find" or m == "index":
            if len(args) == 1:
                idx = z3.IndexOf(t, strterm(args[0]), 0)
                if m == "index" and not self.ctx.branch(idx >= 0):
                    raise pyraise("ValueError", "substring not found")
                return SInt(idx)
        raise Unsupported("str.%s" % m)

    def split_structural(self, t):
        """str.split() (white-space separated words) of a concatenation of literals and declared symbols that are never
        empty and contain no white space: the word boundaries are exactly the white space of the literals (exact).
        Returns a Python list of str / SStr, or None when a leaf is not of that form."""
        if self.charsets is None:
            return None
        words, cur, open_word = [], [], False
        for lf in _concat_leaves(t):
            if z3.is_string_value(lf):
                txt = lf.as_string()
                i = 0
                while i < len(txt):
                    if txt[i] in smt.WSCHARS:
                        if cur:
                            words.append(cur)
                            cur = []
                        i += 1
                        continue
                    j = i
                    while j < len(txt) and txt[j] not in smt.WSCHARS:
                        j += 1
                    cur.append(z3.StringVal(txt[i:j]))
                    i = j
                continue
            if not (z3.is_const(lf) and lf.decl().name() in self.charsets and lf.decl().name() in self.nonempty):
                return None
            if any(c in smt.WSCHARS for c in self.charsets[lf.decl().name()]):
                return None
            cur.append(lf)
        if cur:
            words.append(cur)
        out = []
        for w in words:
            r = z3.simplify(w[0] if len(w) == 1 else z3.Concat(*w))
            out.append(r.as_string() if z3.is_string_value(r) else SStr(r))
        return out

    def strip_structural(self, t, mode):
        """strip over a concatenation whose outermost non-blank piece is a declared symbol that is never empty and
        whose alphabet has no white space: the blanks are exactly the literal characters outside it (exact)"""
        if self.charsets is None:
            return None
        leaves = _concat_leaves(t)

        def solid(lf, left=True):
            if not (z3.is_const(lf) and not z3.is_string_value(lf) and lf.decl().name() in self.charsets and lf.decl().name() in self.nonempty):
                return False
            nm = lf.decl().name()
            if not any(c in smt.WSCHARS for c in self.charsets[nm]):
                return True
            return nm in (self.no_lead_ws if left else self.no_trail_ws)

        def trim(seq, left):
            seq = list(seq)
            while seq:
                lf = seq[0] if left else seq[-1]
                if z3.is_string_value(lf):
                    txt = lf.as_string()
                    txt2 = txt.lstrip(smt.WSCHARS) if left else txt.rstrip(smt.WSCHARS)
                    if txt2:
                        seq[0 if left else -1] = z3.StringVal(txt2)
                        return seq
                    seq.pop(0 if left else -1)
                    continue
                return seq if solid(lf, left) else None
            return seq
        if mode != "rstrip":
            leaves = trim(leaves, True)
        if leaves is not None and mode != "lstrip":
            leaves = trim(leaves, False)
        if leaves is None:
            return None
        if not leaves:
            return ""
        r = z3.simplify(leaves[0] if len(leaves) == 1 else z3.Concat(*leaves))
        return r.as_string() if z3.is_string_value(r) else SStr(r)

    def strip(self, t, mode):
        st = self.strip_structural(t, mode)
        if st is not None:
            return st
        if mode == "strip":
            # the left side alone may be decidable structurally; the right side then uses the general encoding
            left = self.strip_structural(t, "lstrip")
            if left is not None:
                if isinstance(left, str):
                    return left.rstrip(smt.WSCHARS)
                t, mode = left.t, "rstrip"
        if mode == "rstrip":
            # everything up to the last literal non-blank character is kept verbatim; only what follows it can be trimmed
            leaves = _concat_leaves(t)
            cut = None
            for i in range(len(leaves) - 1, -1, -1):
                if z3.is_string_value(leaves[i]) and leaves[i].as_string().rstrip(smt.WSCHARS):
                    cut = i
                    break
            if cut is not None:
                txt = leaves[cut].as_string()
                keep = txt.rstrip(smt.WSCHARS)
                head = leaves[:cut] + [z3.StringVal(keep)]
                tail = ([z3.StringVal(txt[len(keep):])] if txt[len(keep):] else []) + leaves[cut + 1:]
                if not tail:
                    r = z3.simplify(z3.Concat(*head) if len(head) > 1 else head[0])
                    return r.as_string() if z3.is_string_value(r) else SStr(r)
                tail_t = tail[0] if len(tail) == 1 else z3.Concat(*tail)
                rt = self._strip_general(tail_t, "rstrip", allow_empty=True)
                r = z3.simplify(z3.Concat(*(head + [strterm(rt)])))
                return r.as_string() if z3.is_string_value(r) else SStr(r)
        return self._strip_general(t, mode)

    def _strip_general(self, t, mode, allow_empty=False):
        memo = self.__dict__.setdefault("_strip_memo", {})
        mkey = (t.sexpr(), mode)
        if mkey in memo:
            return memo[mkey]          # a function of its argument: same term, same result
        ws = z3.Union(*[z3.Re(c) for c in smt.WSCHARS])
        wss = z3.Star(ws)
        r = self.ctx.fresh("str", "strip")
        memo[mkey] = SStr(r)
        a = self.ctx.fresh("str", "lws") if mode != "rstrip" else z3.StringVal("")
        b = self.ctx.fresh("str", "rws") if mode != "lstrip" else z3.StringVal("")
        self.ctx.assume(t == z3.Concat(a, r, b))
        if mode != "rstrip":
            self.ctx.assume(z3.InRe(a, wss))
            self.ctx.assume(z3.Not(z3.InRe(z3.SubString(r, 0, 1), ws)))
        if mode != "lstrip":
            self.ctx.assume(z3.InRe(b, wss))
            self.ctx.assume(z3.Not(z3.InRe(z3.SubString(r, z3.Length(r) - 1, 1), ws)))
        return SStr(r)

    def dict_method(self, o, m, args, kwargs):
        if isinstance(o, MDict):
            if m in ("get", "pop", "setdefault") and args and not is_sym(args[0]):
                self.resolve_key(o, args[0])
            elif m in ("keys", "items", "values", "copy", "clear") or (m != "update" and args and is_sym(args[0])):
                self.resolve_all(o)
        if m == "get":
            k = args[0]
            dflt = args[1] if len(args) > 1 else kwargs.get("default")
            if isinstance(k, tuple) and any(is_sym(x) for x in k):
                # tuple key with symbolic components against a dict with concrete tuple keys: case split per key
                for kk in list(o):
                    if isinstance(kk, tuple) and len(kk) == len(k) and self.truth(self.eq(list(k), list(kk))):
                        return o[kk]
                return dflt
            if not is_sym(k):
                try:
                    return o.get(k, dflt)
                except TypeError:
                    raise pyraise("TypeError", "unhashable key")
            keys = [kk for kk in o if isinstance(kk, str)] if isinstance(k, SStr) else [kk for kk in o if isinstance(kk, int)]
            if all(isinstance(o[kk], str) for kk in keys) and isinstance(dflt, (str, SStr)):
                res = strterm(dflt)
                for kk in reversed(keys):
                    res = z3.If(strterm(k) == z3.StringVal(kk), z3.StringVal(o[kk]), res)
                return SStr(res)
            for kk in keys:
                if self.truth(self.eq(k, kk)):
                    return o[kk]
            return dflt
        if m == "update":
            src = args[0] if args else {}
            if isinstance(src, MDict):
                self.resolve_all(src)
            if not isinstance(src, dict):
                src = self.b_dict(src)
            for k, v in list(src.items()) + list(kwargs.items()):
                if isinstance(o, MDict):
                    o.maybe.pop(k, None)
                o[k] = v
            return None
        if m == "keys":
            return MethodResult(list(o.keys()), "keys", o)
        if m == "values":
            return MethodResult(list(o.values()), "values", o)
        if m == "items":
            return MethodResult([(k, v) for k, v in o.items()], "items", o)
        if m == "pop":
            k = args[0]
            if is_sym(k):
                raise Unsupported("pop symbolic key")
            if k in o:
                return o.pop(k)
            if len(args) > 1:
                return args[1]
            raise pyraise("KeyError", k)
        if m == "setdefault":
            k = args[0]
            if is_sym(k):
                raise Unsupported("setdefault symbolic key")
            return o.setdefault(k, args[1] if len(args) > 1 else None)
        if m == "copy":
            return dict(o)
        if m == "clear":
            o.clear()
            return None
        raise Unsupported("dict.%s" % m)

    def list_method(self, o, m, args, kwargs):
        if m == "append":
            o.append(args[0])
            return None
        if m == "extend":
            src = args[0]
            if isinstance(src, OSeq):
                raise Unsupported("list.extend with opaque sequence")
            o.extend(self.iter_values(src))
            return None
        if m == "pop":
            if any(is_sym(a) for a in args):
                raise Unsupported("pop symbolic index")
            try:
                return o.pop(*args)
            except IndexError:
                raise pyraise("IndexError", "pop from empty list")
        if m == "insert":
            if is_sym(args[0]):
                raise Unsupported("insert symbolic index")
            o.insert(args[0], args[1])
            return None
        if m == "index":
            for i, x in enumerate(o):
                if self.truth(self.eq(x, args[0])):
                    return i
            raise pyraise("ValueError", "value is not in list")
        if m == "remove":
            for i, x in enumerate(o):
                if self.truth(self.eq(x, args[0])):
                    del o[i]
                    return None
            raise pyraise("ValueError", "list.remove(x): x not in list")
        if m == "count":
            n = 0
            for x in o:
                n = self.binop(ast.Add(), n, self.b_int(self.to_sbool(self.eq(x, args[0]))) if True else 0)
            return n
        if m == "copy":
            return list(o)
        if m == "clear":
            del o[:]
            return None
        if m == "reverse":
            o.reverse()
            return None
        if m == "sort":
            if any(self.has_sym(v) for v in o) or kwargs:
                raise Unsupported("sort")
            o.sort()
            return None
        raise Unsupported("list.%s" % m)

    def oseq_method(self, o, m, args, kwargs):
        if m == "append":
            o.segs.append(("i", args[0]))
            return None
        if m == "extend":
            o.segs.extend(self.norm_segs(args[0]) if isinstance(args[0], (list, OSeq)) else [("i", x) for x in self.iter_values(args[0])])
            return None
        if m == "pop":
            k = args[0] if args else -1
            idx = self.oseq_index(o, k)
            return o.segs.pop(idx)[1]
        if m == "copy":
            return OSeq(o.segs)
        if m == "insert" and args and not is_sym(args[0]) and args[0] == 0:
            o.segs.insert(0, ("i", args[1]))
            return None
        raise Unsupported("opaque sequence .%s" % m)

    # ------------------------------------------------------------ externals
    def call_external(self, name, args, kwargs):
        if name.startswith("logging.") or name.startswith("logger.") or name.endswith(".basicConfig"):
            return None
        if name in ("re.match", "re.fullmatch", "re.search"):
            pat, s = args[0], args[1]
            if is_sym(pat) or len(args) > 2 or kwargs:
                raise Unsupported("re with symbolic pattern / flags")
            # anchors at the two ends of the whole pattern (strings never contain a newline here)
            # a trailing \b after an alternation of plain words: the word is followed by the end of the text or a non-word character
            word_end = False
            import re as _re2
            if isinstance(pat, str) and _re2.fullmatch(r"\^?\((\w+\|)*\w+\)\\b", pat):
                pat, word_end = pat[:-2], True
            a_start = isinstance(pat, str) and pat.startswith("^")
            a_end = isinstance(pat, str) and pat.endswith("$") and not pat.endswith("\\$")
            core = pat[(1 if a_start else 0):(len(pat) - 1 if a_end else len(pat))]
            if (a_start or a_end) and _top_level_alternation(core):
                raise Unsupported("regex anchor inside alternation")
            rx = regex_to_z3(core)
            anyc = z3.Star(z3.AllChar(z3.ReSort(smt.S)))
            if word_end:
                nonword = regex_to_z3(r"[^a-zA-Z0-9_]")
                rx = z3.Concat(rx, z3.Union(z3.Re(""), z3.Concat(nonword, anyc)))
                if name == "re.match":
                    if isinstance(s, str):
                        return ReMatch(z3.BoolVal(True)) if getattr(_re2, "match")(pat + r"\b", s) is not None else None
                    return ReMatch(z3.InRe(strterm(s), rx))
                raise Unsupported("\\b outside re.match")
            if name == "re.match":
                rx = rx if a_end else z3.Concat(rx, anyc)
            elif name == "re.search":
                rx = z3.Concat(*([] if a_start else [anyc]) + [rx] + ([] if a_end else [anyc])) if not (a_start and a_end) else rx
            if isinstance(s, str):
                import re as _re
                # a match object (truthy, `is not None`) or None, as in Python
                return ReMatch(z3.BoolVal(True)) if getattr(_re, name[3:])(pat, s) is not None else None
            return ReMatch(z3.InRe(strterm(s), rx))
        if name == "re.sub":
            pat, repl, subj = args[0], args[1], args[2]
            if is_sym(pat) or is_sym(repl) or len(args) > 3 or kwargs:
                raise Unsupported("re.sub with symbolic pattern / count / flags")
            if isinstance(subj, str):
                import re as _re
                return _re.sub(pat, repl, subj)
            # a pattern that needs a literal character which the subject cannot contain matches nowhere (exact):
            # zero-width assertions (\b) and grouping parentheses aside, the pattern is a plain literal
            import re as _re3
            lit = _re3.sub(r"\\b|[()]", "", pat) if isinstance(pat, str) else None
            if lit and _re3.fullmatch(r"(\\[^a-zA-Z0-9]|[^\\.^$*+?{}\[\]|()])+", lit):
                needed = set(_re3.sub(r"\\(.)", r"\1", lit))
                alpha = self.alphabet(strterm(subj))
                if alpha is not None and any(c not in alpha for c in needed):
                    return subj
            chars = _single_char_class(pat)
            if chars is None or any(c in repl for c in chars):
                raise Unsupported("re.sub pattern other than a single character class")
            # removing / replacing every character of a class = one replace_all per character (order immaterial
            # because the replacement contains none of them)
            cur = subj
            for c in chars:
                simp = self.replace_over_concat(strterm(cur), c, repl) if self.charsets is not None else None
                cur = simp if simp is not None else SStr(smt.REPLACE_ALL(strterm(cur), z3.StringVal(c), z3.StringVal(repl)))
            return cur
        if name == "os.path.basename" and len(args) == 1:
            pth = args[0]
            if isinstance(pth, str):
                import os.path as _osp
                return _osp.basename(pth)
            # POSIX: the part after the last "/" (definition by decomposition: unique)
            memo = self.__dict__.setdefault("_basename_memo", {})
            key = strterm(pth).sexpr()
            if key in memo:
                return memo[key]       # a function: the same argument gives the same result term
            head, tail = self.ctx.fresh("str", "dir"), self.ctx.fresh("str", "base")
            memo[key] = SStr(tail)
            self.ctx.assume(strterm(pth) == z3.Concat(head, tail))
            self.ctx.assume(z3.Not(z3.Contains(tail, z3.StringVal("/"))))
            self.ctx.assume(z3.Or(head == z3.StringVal(""), z3.SuffixOf(z3.StringVal("/"), head)))
            self.ctx.assume(z3.InRe(tail, smt.PRINTABLE))
            return SStr(tail)
        if name == "copy.deepcopy":
            return self.b_deepcopy(args[0])
        if name == "re.compile" and args and all(not self.has_sym(a) for a in args) and all(not self.has_sym(v) for v in kwargs.values()):
            import re as _re4
            return _re4.compile(*args, **kwargs)
        if name in ("lex.lex", "yacc.yacc", "ply.lex.lex", "ply.yacc.yacc"):
            # A-PLY: the generated lexer / parser object is a function of the keyword settings it was asked with
            # (the object / module it is built from is named by its class only: own-ness is the global-purity frame clause)
            def _nm(v):
                return getattr(getattr(v, "_cls", None), "__name__", None) if isinstance(v, Obj) else v
            return Opaque(name.split(".")[-2] + "." + name.split(".")[-1], [[k, _nm(kwargs[k])] for k in sorted(kwargs)])
        if name in ("os.path.isdir", "os.path.isfile", "os.path.exists") and len(args) == 1:
            # the state of the file system is not modelled: an unknown that depends on the path only
            return Opaque(name, list(args))
        if name == "os.makedirs":
            self.__dict__.setdefault("ghost", []).append(["os.makedirs"] + list(args) + [[k, kwargs[k]] for k in sorted(kwargs)])
            return None
        if name == "json.dump" and len(args) >= 2:
            # writing JSON to an opened file: the observable effect is (what, where) - `where` is the opaque open(...) value
            self.__dict__.setdefault("ghost", []).append(["json.dump", args[0], args[1]] + [[k, kwargs[k]] for k in sorted(kwargs)])
            return None
        if name in ("pprint.pprint", "pprint.pp"):
            # console output is an observable effect: a ghost event (the reference records it with ghost_call("print", x))
            self.__dict__.setdefault("ghost", []).append(["print"] + list(args))
            return None
        if name == "json.dumps":
            return Opaque("json.dumps", args)
        raise Unsupported("external call %s" % name)


_MISSING = object()
_fresh_parser = {}


def _fresh_parser_attr(cls, name):
    import re as _re
    if cls not in _fresh_parser:
        try:
            _fresh_parser[cls] = cls("")
        except Exception:
            _fresh_parser[cls] = None
    p = _fresh_parser[cls]
    if p is None or not hasattr(p, name):
        return _MISSING
    v = getattr(p, name)
    if v is None or isinstance(v, (bool, int, str, _re.Pattern)):
        return v
    return _MISSING


def _is_generator(fn_node):
    todo = list(fn_node.body)
    while todo:
        n = todo.pop()
        if isinstance(n, (ast.Yield, ast.YieldFrom)):
            return True
        if isinstance(n, (ast.FunctionDef, ast.Lambda, ast.AsyncFunctionDef, ast.ClassDef)):
            continue
        todo.extend(ast.iter_child_nodes(n))
    return False


def _concat_leaves(t):
    if z3.is_app(t) and t.decl().kind() == z3.Z3_OP_SEQ_CONCAT:
        out = []
        for c in t.children():
            out.extend(_concat_leaves(c))
        return out
    return [t]


def _single_char_class(pat):
    """characters of a pattern of the form [abc] (escapes allowed, no ranges / negation), else None"""
    if not (isinstance(pat, str) and len(pat) >= 3 and pat[0] == "[" and pat[-1] == "]" and pat[1] != "^"):
        return None
    body, out, i = pat[1:-1], [], 0
    while i < len(body):
        c = body[i]
        if c == "\\":
            i += 1
            if i >= len(body) or body[i].isalnum():
                return None
            c = body[i]
        elif c == "-" and 0 < i < len(body) - 1:
            return None
        elif c in "[]":
            return None
        out.append(c)
        i += 1
    return out


def _top_level_alternation(pat):
    depth, i, in_cls = 0, 0, False
    while i < len(pat):
        c = pat[i]
        if c == "\\":
            i += 2
            continue
        if in_cls:
            in_cls = c != "]"
        elif c == "[":
            in_cls = True
        elif c == "(":
            depth += 1
        elif c == ")":
            depth -= 1
        elif c == "|" and depth == 0:
            return True
        i += 1
    return False


class SplitLen:
    def __init__(self, view):
        self.view = view


class MethodResult:
    """result of dict.keys()/values()/items(): list + provenance (for `d.keys() == {...}`)"""

    def __init__(self, value, kind, src):
        self.value, self.kind, self.src = value, kind, src


class EnumOSeq:
    def __init__(self, seq, start=0):
        self.seq, self.start = seq, start


# MethodResult must behave like its list almost everywhere
_orig_iter_values = Interp.iter_values


def _iter_values(self, it):
    if isinstance(it, MethodResult):
        return list(it.value)
    return _orig_iter_values(self, it)


Interp.iter_values = _iter_values

_orig_eq = Interp.eq


def _eq(self, a, b):
    if isinstance(a, MethodResult) or isinstance(b, MethodResult):
        if isinstance(b, MethodResult):
            a, b = b, a
        if a.kind == "keys" and isinstance(b, (set, frozenset)):
            return set(a.value) == set(b)
        if isinstance(b, MethodResult):
            return self.eq(a.value, b.value) if a.kind == b.kind else False
        return False
    return _orig_eq(self, a, b)


Interp.eq = _eq

_orig_len = Interp.b_len


def _b_len(self, a):
    if isinstance(a, MethodResult):
        return len(a.value)
    return _orig_len(self, a)


Interp.b_len = _b_len

_orig_contains = Interp.contains


def _contains(self, item, cont):
    if isinstance(cont, MethodResult):
        cont = cont.value
    return _orig_contains(self, item, cont)


Interp.contains = _contains
