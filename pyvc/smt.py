"""SMT side: path contexts, theory placeholders, solver portfolio.

Soundness notes
* In-process z3 sees py_upper / py_lower / py_replace_all / py_int as
  uninterpreted functions; an `unsat` is then valid for every interpretation,
  in particular the real one. A `sat`/`unknown` from that abstraction is never
  believed: the query goes to cvc5, where the placeholders are replaced by the
  native SMT-LIB operators (str.to_upper, str.to_lower, str.replace_all) and
  py_int is axiomatised on the terms it is applied to.
* Branch-feasibility pruning treats `unknown` as feasible.
"""
import os
import re
import subprocess
import tempfile
import time

import z3

from .values import Infeasible

S = z3.StringSort()
I = z3.IntSort()
B = z3.BoolSort()

UPPER = z3.Function("py_upper", S, S)
LOWER = z3.Function("py_lower", S, S)
REPLACE_ALL = z3.Function("py_replace_all", S, S, S, S)
PYINT = z3.Function("py_int", S, I)

DIG = z3.Plus(z3.Range("0", "9"))
SIGN = z3.Option(z3.Union(z3.Re("-"), z3.Re("+")))
INTLIT = z3.Concat(SIGN, DIG)                       # [+-]?[0-9]+
_WS = z3.Star(z3.Union(z3.Re(" "), z3.Re("\t"), z3.Re("\n"), z3.Re("\r"), z3.Re("\x0b"), z3.Re("\x0c")))
PYINT_DOMAIN = z3.Concat(_WS, SIGN, DIG, z3.Star(z3.Concat(z3.Re("_"), DIG)), _WS)  # what int() accepts (ASCII)
PRINTABLE = z3.Star(z3.Range(" ", "~"))            # ASCII printable
WSCHARS = " \t\n\r\x0b\x0c"


def pyint_axioms(terms):
    ax = []
    for t in terms:
        n = z3.Length(t)
        body = z3.SubString(t, 1, n - 1)
        ax.append(z3.Implies(z3.InRe(t, DIG), PYINT(t) == z3.StrToInt(t)))
        ax.append(z3.Implies(z3.And(z3.PrefixOf(z3.StringVal("+"), t), z3.InRe(body, DIG)), PYINT(t) == z3.StrToInt(body)))
        ax.append(z3.Implies(z3.And(z3.PrefixOf(z3.StringVal("-"), t), z3.InRe(body, DIG)), PYINT(t) == -z3.StrToInt(body)))
    return ax


def _collect_apps(e, decl, acc, seen):
    if e.get_id() in seen:
        return
    seen.add(e.get_id())
    if z3.is_app(e):
        if e.decl().eq(decl):
            acc[e.arg(0).get_id()] = e.arg(0)
        for c in e.children():
            _collect_apps(c, decl, acc, seen)


class Ctx:
    """One path: decision prefix + path condition + incremental feasibility solver."""

    def __init__(self, decisions=(), assumptions=()):
        self.decisions = list(decisions)
        self.pos = 0
        self.pc = list(assumptions)
        self.new_alternatives = []
        self.solver = z3.Solver()
        self.solver.set("timeout", int(os.environ.get("VERIF_PRUNE_MS", "120")))
        for a in assumptions:
            self.solver.add(a)
        self.queries = 0
        self.counter = 0
        self.notes = []       # abstraction notes (uninterpreted terms used on this path)
        self.side_obligations = []   # (name, z3 Bool goal under current pc snapshot)

    def assume(self, cond):
        if isinstance(cond, bool):
            if not cond:
                raise Infeasible()
            return
        self.pc.append(cond)
        self.solver.add(cond)

    def fresh(self, sort, hint):
        self.counter += 1
        name = "%s!%d" % (hint, self.counter)
        if sort == "str":
            return z3.String(name)
        if sort == "int":
            return z3.Int(name)
        return z3.Bool(name)

    def feasible(self, cond):
        self.solver.push()
        self.solver.add(cond)
        self.queries += 1
        r = self.solver.check()
        self.solver.pop()
        return r != z3.unsat

    def branch(self, cond):
        """cond: z3 Bool or python bool. Returns the python bool taken on this path."""
        if isinstance(cond, bool):
            return cond
        cond = z3.simplify(cond)
        if z3.is_true(cond):
            return True
        if z3.is_false(cond):
            return False
        if self.pos < len(self.decisions):
            d = self.decisions[self.pos]
            self.pos += 1
        else:
            ft, ff = self.feasible(cond), self.feasible(z3.Not(cond))
            if ft and ff:
                self.new_alternatives.append(self.decisions + [False])
                d = True
            elif ft:
                d = True
            elif ff:
                d = False
            else:
                raise Infeasible()
            self.decisions.append(d)
            self.pos += 1
        c = cond if d else z3.Not(cond)
        self.pc.append(c)
        self.solver.add(c)
        return d

    def choose(self, n, hint="choice"):
        """n-way nondeterministic choice (input shapes); returns index 0..n-1."""
        for i in range(n - 1):
            if self.branch(self.fresh("bool", hint)):
                return i
        return n - 1


def explore(run_path, assumptions=(), max_paths=20000, max_seconds=None):
    """run_path(ctx) -> outcome; enumerates every feasible path by re-execution."""
    work = [[]]
    out = []
    t0 = time.time()
    if max_seconds is None:
        max_seconds = float(os.environ.get("VERIF_EXPLORE_SECONDS", "240"))
    while work:
        if time.time() - t0 > max_seconds:
            raise RuntimeError("exploration budget exceeded (%d s, %d paths so far)" % (max_seconds, len(out)))
        dec = work.pop()
        ctx = Ctx(dec, assumptions)
        try:
            res = run_path(ctx)
        except Infeasible:
            work.extend(ctx.new_alternatives)
            continue
        work.extend(ctx.new_alternatives)
        out.append((ctx, res))
        if len(out) > max_paths:
            raise RuntimeError("path explosion (> %d paths)" % max_paths)
    return out


# ---------------------------------------------------------------- solving

_SUBST_CVC5 = [("py_upper", "str.to_upper"), ("py_lower", "str.to_lower"), ("py_replace_all", "str.replace_all")]
_SUBST_Z3 = [("py_replace_all", "str.replace_all")]


def _to_smt2(assertions, native):
    s = z3.Solver()
    for a in assertions:
        s.add(a)
    txt = s.to_smt2()
    for old, new in native:
        txt = re.sub(r"\(declare-fun %s \([^)]*\) \w+\)\n?" % re.escape(old), "", txt)
        txt = txt.replace("(" + old + " ", "(" + new + " ")
    return txt


def _with_axioms(pc, goal):
    asserts = list(pc) + [z3.Not(goal)]
    acc, seen = {}, set()
    for a in asserts:
        _collect_apps(a, PYINT, acc, seen)
    return asserts + pyint_axioms(acc.values())


def parse_model(text):
    """Parse `(define-fun name () Sort value)` lines of a cvc5/z3 model."""
    model = {}
    for m in re.finditer(r"\(define-fun\s+(\|[^|]*\||\S+)\s+\(\)\s+(\w+)\s+(.*?)\)\s*(?=\(define-fun|\)\s*$|$)", text, re.S):
        name, sort, val = m.group(1).strip("|"), m.group(2), m.group(3).strip()
        if sort == "String":
            mm = re.match(r'^"(.*)"$', val, re.S)
            v = mm.group(1) if mm else val
            v = v.replace('""', '"')
            v = re.sub(r"\\u\{([0-9a-fA-F]+)\}", lambda k: chr(int(k.group(1), 16)), v)
            v = re.sub(r"\\u([0-9a-fA-F]{4})", lambda k: chr(int(k.group(1), 16)), v)
            model[name] = v
        elif sort == "Int":
            mm = re.match(r"^\(\s*-\s*(\d+)\s*\)$", val)
            model[name] = -int(mm.group(1)) if mm else int(val)
        elif sort == "Bool":
            model[name] = val == "true"
    return model


def run_cvc5(assertions, timeout, want_model=True):
    txt = "(set-logic ALL)\n" + _to_smt2(assertions, _SUBST_CVC5)
    if want_model:
        txt = txt.replace("(check-sat)", "(check-sat)\n(get-model)")
    fd, path = tempfile.mkstemp(suffix=".smt2", prefix="pyvc_")
    os.write(fd, txt.encode())
    os.close(fd)
    t0 = time.time()
    try:
        r = subprocess.run(["/usr/bin/cvc5", "--strings-exp", "--produce-models", "--tlimit=%d" % int(timeout * 1000), path],
                           capture_output=True, text=True, timeout=timeout + 5)
        out = r.stdout.strip()
        first = out.split("\n", 1)[0].strip() if out else ""
        if first in ("sat", "unsat"):
            return first, (out.split("\n", 1)[1] if "\n" in out else ""), time.time() - t0
        return "unknown", (out + r.stderr)[:500], time.time() - t0
    except subprocess.TimeoutExpired:
        return "unknown", "timeout", time.time() - t0
    finally:
        os.unlink(path)


def run_z3(assertions, timeout):
    t0 = time.time()
    s = z3.Solver()
    s.set("timeout", int(timeout * 1000))
    for a in assertions:
        s.add(a)
    r = s.check()
    return str(r), s, time.time() - t0


def uses_abstraction(assertions):
    txt = " ".join(a.sexpr() for a in assertions)
    return any(k in txt for k in ("py_upper", "py_lower", "py_replace_all", "py_mem", "py_len", "py_join"))


def discharge(pc, goal, timeout=20, quick=1.0):
    """Is  pc => goal  valid?  Returns dict(status, solver, model, seconds).
    status: 'unsat' (valid), 'sat' (counter-model), 'unknown'."""
    t0 = time.time()
    if isinstance(goal, bool):
        if goal:
            return dict(status="unsat", solver="structural", model=None, seconds=0.0)
        goal = z3.BoolVal(False)
    g = z3.simplify(goal)
    if z3.is_true(g):
        return dict(status="unsat", solver="simplify", model=None, seconds=0.0)
    asserts = _with_axioms(pc, goal)
    if uses_abstraction(asserts):
        # z3 sees case mapping / replace_all as uninterpreted: it can only ever answer unsat here, and usually times
        # out on such queries - give it a short try, the native encoding goes to cvc5
        quick = min(quick, 0.15)
    r, s, dt = run_z3(asserts, quick)
    if r == "unsat":
        return dict(status="unsat", solver="z3", model=None, seconds=time.time() - t0)
    if r == "sat" and not uses_abstraction(asserts):
        m = s.model()
        model = {}
        for d in m.decls():
            if d.arity() == 0:
                v = m[d]
                if z3.is_string_value(v):
                    model[d.name()] = v.as_string()
                elif z3.is_int_value(v):
                    model[d.name()] = v.as_long()
                elif z3.is_true(v) or z3.is_false(v):
                    model[d.name()] = z3.is_true(v)
        # z3 string escapes
        for k, v in list(model.items()):
            if isinstance(v, str):
                model[k] = re.sub(r"\\u\{([0-9a-fA-F]+)\}", lambda q: chr(int(q.group(1), 16)), v)
        return dict(status="sat", solver="z3", model=model, seconds=time.time() - t0)
    r2, out, dt2 = run_cvc5(asserts, timeout)
    if r2 == "unsat":
        return dict(status="unsat", solver="cvc5", model=None, seconds=time.time() - t0)
    if r2 == "sat":
        return dict(status="sat", solver="cvc5", model=parse_model(out), seconds=time.time() - t0)
    r3, s3, dt3 = run_z3(asserts, timeout)
    if r3 == "unsat":
        return dict(status="unsat", solver="z3", model=None, seconds=time.time() - t0)
    return dict(status="unknown", solver="cvc5+z3", model=None, seconds=time.time() - t0, detail=str(out)[:300])
