"""Replay of a counter-model on the REAL function (run under /venv/bin/python with the
scratch copy of the repository first on PYTHONPATH). Pure Python, no z3.

usage: replay_native.py <request.json>   ->  last stdout line is a JSON verdict
"""
import copy
import importlib
import json
import sys
import traceback


def real_hooks():
    from ply.lex import LexToken
    from ply.yacc import YaccProduction, YaccSymbol

    def prod(values, types=None):
        syms = []
        s0 = YaccSymbol()
        s0.type = "$lhs"
        s0.value = None
        syms.append(s0)
        for i, v in enumerate(values):
            s = YaccSymbol()
            s.type = (types[i] if types else "sym%d" % i)
            s.value = v
            syms.append(s)
        return YaccProduction(syms)

    _parser_cache = {}

    def parser(lexer_attrs, attrs):
        from simple_ddl_parser import DDLParser
        p = DDLParser("", **{k: attrs[k] for k in ("silent", "normalize_names") if k in attrs})
        p.set_default_flags_in_lexer()
        for k, v in lexer_attrs.items():
            setattr(p.lexer, k, v)
        for k, v in attrs.items():
            setattr(p, k, v)
        p._verif_tracked = (sorted(lexer_attrs), sorted(attrs))
        return p

    def token(value, type="ID"):
        t = LexToken()
        t.type, t.value, t.lineno, t.lexpos = type, value, 1, 0
        return t

    class O:
        pass

    def obj(cls, attrs):
        # a named repository class: a real instance (constructor bypassed), so that methods resolve
        real = None
        if isinstance(cls, str):
            for modname in ("output.base_data", "output.core", "output.table_data", "output.dialects", "parser", "ddl_parser"):
                try:
                    real = getattr(importlib.import_module("simple_ddl_parser." + modname), cls, None)
                except ImportError:
                    real = None
                if real is not None:
                    break
        if isinstance(cls, type):
            real = cls
        o = real.__new__(real) if isinstance(real, type) else O()
        o.__dict__.update(attrs)
        return o
    return dict(prod=prod, parser=parser, token=token, obj=obj)


def norm(v, depth=0):
    from ply.lex import LexToken
    from ply.yacc import YaccProduction
    if depth > 12:
        return "..."
    if isinstance(v, YaccProduction):
        return ["<p>"] + [norm(s.value, depth + 1) for s in v.slice]
    if isinstance(v, LexToken):
        return {"<tok>": [v.type, v.value]}
    if hasattr(v, "_verif_tracked"):
        lk, ak = v._verif_tracked
        return {"<parser>": {"lexer": {k: norm(getattr(v.lexer, k, "<unset>"), depth + 1) for k in lk},
                             "attrs": {k: norm(getattr(v, k, "<unset>"), depth + 1) for k in ak}}}
    if isinstance(v, dict):
        return {"<dict>": sorted(((repr(k), norm(x, depth + 1)) for k, x in v.items()), key=lambda kv: kv[0])}
    if isinstance(v, list):
        return [norm(x, depth + 1) for x in v]
    if isinstance(v, tuple):
        return {"<tuple>": [norm(x, depth + 1) for x in v]}
    if isinstance(v, (str, int, float, bool)) or v is None:
        return {"<%s>" % type(v).__name__: v}
    if hasattr(v, "__dict__"):
        return {"<obj>": {k: norm(x, depth + 1) for k, x in sorted(v.__dict__.items()) if not k.startswith("_")}}
    return repr(v)


def resolve(fn_key):
    parts = fn_key.split(".")
    for i in range(len(parts), 0, -1):
        try:
            mod = importlib.import_module("simple_ddl_parser." + ".".join(parts[:i]))
        except ImportError:
            continue
        o = mod
        for a in parts[i:]:
            o = getattr(o, a)
        return o, parts[i:]
    raise KeyError(fn_key)


POOL = ["x", "a1", "Ab_9", "-5", "+0", "007", "12", "0", "9223372036854775808", "", "ID", "`q`", '"q"', "[q]", "KEY", "unique",
        "a,b", "(", ")", ",", "x,", "NULL", "null", "Not", "max", "*", "'s'", "''", "a.b", "<", ">", "A<B>", "ARRAY", "array<int>",
        "a=b", "=", ".", "sq", "my", "post", "sql", "hql", "desc", "ASC", "Primary", "CHECK", "default", "[]", "x y", " x ", "\t", "1_0", "-", "+", "e1", "ON", "$", "a`b"]
INTS = [-2 ** 63, -7, -1, 0, 1, 2, 7, 2 ** 31, 2 ** 63 - 1, 2 ** 63]


def make_randgen(rnd, hooks):
    import re
    from pyvc.gen import ConcGen

    class RandGen(ConcGen):
        def __init__(self):
            ConcGen.__init__(self, {}, hooks)

        def _draw(self, name, f):
            if name not in self.model:
                self.model[name] = f()
            self.used[name] = self.model[name]
            return self.model[name]

        def str(self, name, pattern=None, default="x"):
            def f():
                pool = [s for s in POOL if pattern is None or re.fullmatch(pattern, s)]
                if default not in pool and (pattern is None or re.fullmatch(pattern, default)):
                    pool.append(default)
                return rnd.choice(pool) if pool else default
            return self._draw(name, f)

        def int(self, name, lo=None, hi=None, default=0):
            return self._draw(name, lambda: rnd.choice([i for i in INTS + list(range(0, 4)) if (lo is None or i >= lo) and (hi is None or i <= hi)] or [default]))

        def bool(self, name, default=False):
            return bool(self._draw(name, lambda: rnd.random() < 0.5))

        def choice(self, name, n):
            return self._draw(name, lambda: rnd.randrange(n))

        def exactly_one(self, flags):
            if not any(f in self.model for f in flags):
                pick = rnd.choice(flags)
                for f in flags:
                    self.model[f] = (f == pick)

        def oseq(self, name, items=(), elem=None, min_len=0):
            self._draw("len:" + name, lambda: max(min_len, rnd.choice([0, 1, 1, 2, 3])))
            return ConcGen.oseq(self, name, items, elem, min_len)
    return RandGen()


def run_case(C, model, first_gen=None):
    from pyvc.gen import ConcGen
    hooks = real_hooks()

    def build(g=None):
        G = g or ConcGen(model, hooks)
        b = C.build(G)
        return b.get("args", []), b.get("kwargs", {}), G
    argsA, kwA, G = build(first_gen)
    if first_gen is not None:
        model = dict(first_gen.model)
    argsB, kwB, _ = build()
    old, _, _ = build()
    res = dict(inputs=norm(old), used_symbols={k: v for k, v in G.used.items()})
    req = C.native("requires")
    if req is not None and not req(*old):
        res.update(reproduced=False, reason="model does not satisfy requires natively")
        return res
    fn, rest = resolve(C.fn)
    import inspect
    if inspect.ismethod(fn) and isinstance(fn.__self__, type):
        # classmethod: the contract passes the class slot explicitly
        argsA, argsB, old = argsA[1:], argsB[1:], old
    if len(rest) == 2 and not isinstance(fn, staticmethod) and not hasattr(argsA[0], "_verif_tracked"):
        # method given without a real self: contracts for p_* pass self explicitly
        pass
    got_exc = exp_exc = None
    got = exp = None
    exc_obj = None
    try:
        got = fn(*argsA, **kwA)
    except Exception as e:
        exc_obj = e
        got_exc = type(e).__name__
        res["exception"] = "%s: %s" % (type(e).__name__, e)
    spec = C.native("spec")
    ok = True
    why = []
    if got_exc is not None:
        allowed = got_exc in C.raises or any(k.__name__ in C.raises for k in type(exc_obj).__mro__)
        if not allowed:
            ok = False
            why.append("raises %s" % got_exc)
    if spec is not None:
        try:
            exp = spec(*argsB, **kwB)
        except Exception as e2:
            exp_exc = type(e2).__name__
        if (got_exc is None) != (exp_exc is None):
            ok = False
            why.append("function %s, reference %s" % (got_exc or "returns", exp_exc or "returns"))
        elif got_exc is None:
            if norm(got) != norm(exp):
                ok = False
                why.append("result differs from the reference")
            if getattr(C.cls, "observable", None) == "result":
                view = lambda args: [(lambda n: n[:2] if isinstance(n, list) and n[:1] == ["<p>"] else n)(norm(a)) for a in args]
            else:
                view = norm
            if view(argsA) != view(argsB):
                ok = False
                why.append("post-state of the arguments differs from the reference")
        res["observed"] = dict(result=norm(got), post=norm(argsA))
        res["expected"] = dict(result=norm(exp), post=norm(argsB))
    ens = C.native("ensures")
    if ens is not None and got_exc is None:
        try:
            if not ens(old, argsA, got):
                ok = False
                why.append("ensures is false")
        except Exception as e3:
            ok = False
            why.append("ensures raised %s: %s" % (type(e3).__name__, e3))
        res.setdefault("observed", dict(result=norm(got), post=norm(argsA)))
    res["reproduced"] = not ok
    res["why"] = why
    lift = C.native("lift")
    if lift is not None:
        try:
            res["lifted"] = lift(dict(G.used))
        except Exception as e4:
            res["lifted_error"] = "%s: %s" % (type(e4).__name__, e4)
    return res


def enumerate_cases(req):
    """bounded stand-in for one contract instance: N random admissible inputs on the real function"""
    import random
    importlib.import_module(req["module"])
    from contracts import base
    C = base.find(req["module"], req["cls"], req["case"])
    rnd = random.Random(req.get("seed", 0))
    hooks = real_hooks()
    n_ok = n_skip = 0
    failures, seen = [], set()
    for i in range(req.get("n", 200)):
        g = make_randgen(rnd, hooks)
        try:
            res = run_case(C, {}, g)
        except Exception:
            failures.append(dict(model=dict(g.model), error=traceback.format_exc()[-1500:]))
            continue
        key = json.dumps(res.get("inputs"), sort_keys=True, default=str)
        if res.get("reason"):
            n_skip += 1
            continue
        seen.add(key)
        if res.get("reproduced"):
            if len(failures) < 5:
                failures.append(dict(model=res.get("used_symbols"), why=res.get("why"), observed=res.get("observed"), expected=res.get("expected"), exception=res.get("exception")))
        else:
            n_ok += 1
    return dict(contract=C.name, tried=req.get("n", 200), admitted=n_ok + len(failures), distinct=len(seen), skipped=n_skip, failures=failures)


def main():
    req = json.load(open(sys.argv[1]))
    if req.get("mode") == "enumerate":
        try:
            print(json.dumps(enumerate_cases(req), default=str))
        except Exception:
            print(json.dumps(dict(error=traceback.format_exc()[-2000:])))
        return
    try:
        importlib.import_module(req["module"])
        from contracts import base
        C = base.find(req["module"], req["cls"], req["case"])
        res = run_case(C, req.get("model") or {})
    except Exception:
        res = dict(reproduced=None, error=traceback.format_exc()[-2000:])
    print(json.dumps(res, default=str))


if __name__ == "__main__":
    main()
