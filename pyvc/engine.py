"""Verification of repository functions against sidecar contracts.

For a contract C on function f the engine enumerates every feasible path of
    inputs := C.build(G);  assume C.requires(inputs)
    A := deepcopy(inputs);  r  := f(A)            (real AST, interpreted symbolically)
    B := deepcopy(inputs);  r' := C.spec(B)       (executable reference, same interpreter)
and emits one obligation per path:
    path condition  =>  r == r'  and  A == B  and  C.ensures(old, A, r)
(or `path condition => False` when f ends in an exception C.raises does not list).
"""
import importlib
import json
import os
import subprocess
import sys
import time
import traceback

import z3

from . import smt
from .gen import make_symgen
from .interp import Interp
from .fold import LoopObligation
from .program import Program, scratch_dir
from .values import Infeasible, MDict, Obj, OSeq, PProd, PyRaise, SBool, Unsupported

VERIF = os.path.dirname(os.path.dirname(os.path.abspath(__file__)))


class CalleePreconditionFailed(Exception):
    def __init__(self, callee):
        self.callee = callee


def load_contract_modules(prog, names):
    """import contracts natively and index their ASTs in the program"""
    if VERIF not in sys.path:
        sys.path.insert(0, VERIF)
    from contracts import base
    mods = []
    for n in names:
        mod = importlib.import_module("contracts." + n)
        mods.append(mod)
    # index every contracts/*.py file (contracts import helpers from each other)
    cdir = os.path.join(VERIF, "contracts")
    import ast
    for fn in sorted(os.listdir(cdir)):
        if fn.endswith(".py") and fn != "__init__.py":
            name = "contracts." + fn[:-3]
            if name not in prog.trees:
                src = open(os.path.join(cdir, fn)).read()
                prog.sources[name] = src
                prog.trees[name] = ast.parse(src)
                prog._index(name, prog.trees[name])
                try:
                    prog.real[name] = importlib.import_module(name)
                except Exception:
                    pass
    return base.REGISTRY


def contract_fref(prog, C, attr):
    mod = C.module
    cref = prog.classes.get(mod, {}).get(C.clsname)
    if cref is None:
        return None
    return cref.methods.get(attr)


def state_eq(I, a, b, memo=None):
    """structural equality of two object graphs (post-states), returns bool | SBool"""
    memo = memo if memo is not None else set()
    key = (id(a), id(b))
    if key in memo:
        return True
    memo.add(key)
    if isinstance(a, PProd) and isinstance(b, PProd):
        if len(a.slice) != len(b.slice):
            return False
        return I.and_all([state_eq(I, x, y, memo) for x, y in zip(a.slice, b.slice)])
    if isinstance(a, Obj) and isinstance(b, Obj):
        ka = {k for k in a.__dict__ if k != "_cls"}
        kb = {k for k in b.__dict__ if k != "_cls"}
        extra_goals = []
        if getattr(getattr(a, "_cls", None), "__name__", None) in ("DDLParser", "Parser") and kb <= ka:
            # the parser object: an attribute the function under verification adds and the reference does not know is
            # incidental bookkeeping as far as THIS contract goes (a, the first argument, is always the function's side);
            # whether it may survive a run is the init-before-use frame obligation's business.  Not so for table objects:
            # every attribute of a table is reported (to_dict walks __dict__).
            # An attribute that a freshly constructed parser HAS is not bookkeeping: a contract that does not mention it
            # reads it as that fresh value, so the function must leave it at that value (frame).
            from .interp import _MISSING, _fresh_parser_attr
            for k in sorted(ka - kb):
                d = _fresh_parser_attr(a._cls, k)
                if d is not _MISSING:
                    extra_goals.append(I.eq(a.__dict__[k], d))
            ka = kb
        if ka != kb:
            return False
        return I.and_all(extra_goals + [state_eq(I, a.__dict__[k], b.__dict__[k], memo) for k in sorted(ka)])

    if isinstance(a, MDict) and isinstance(b, MDict):
        # keys that are maybe-present in both under the same condition need no case split:
        # compare their values under that condition
        shared = [k for k in a.maybe if k in b.maybe and a.maybe[k].eq(b.maybe[k])]
        for k in list(a.maybe):
            if k not in shared:
                I.resolve_key(a, k)
        for k in list(b.maybe):
            if k not in shared:
                I.resolve_key(b, k)
        if set(a.keys()) != set(b.keys()):
            return False
        goals = []
        for k in a:
            g = state_eq(I, a[k], b[k], memo)
            if k in shared and not isinstance(g, bool):
                g = SBool(z3.Implies(a.maybe[k], g.t))
            elif k in shared and g is False:
                g = SBool(z3.Not(a.maybe[k]))
            goals.append(g)
        return I.and_all(goals)
    if isinstance(a, MDict):
        I.resolve_all(a)
    if isinstance(b, MDict):
        I.resolve_all(b)
    if isinstance(a, dict) and isinstance(b, dict):
        if set(a.keys()) != set(b.keys()):
            return False
        return I.and_all([state_eq(I, a[k], b[k], memo) for k in a])
    if isinstance(a, (list, tuple)) and isinstance(b, (list, tuple)) and type(a) is type(b):
        if len(a) != len(b):
            return False
        return I.and_all([state_eq(I, x, y, memo) for x, y in zip(a, b)])
    return I.eq(a, b)


def _result_view(a):
    return [a.slice[0]] if isinstance(a, PProd) else a


def describe(v, depth=0):
    """printable rendering of a symbolic value for reports"""
    if depth > 6:
        return "..."
    if isinstance(v, PProd):
        return ["p"] + [describe(x, depth + 1) for x in v.slice]
    if isinstance(v, Obj):
        return {"<obj>": {k: describe(x, depth + 1) for k, x in v.__dict__.items() if k != "_cls"}}
    if isinstance(v, dict):
        return {str(k): describe(x, depth + 1) for k, x in v.items()}
    if isinstance(v, (list, tuple)):
        return [describe(x, depth + 1) for x in v]
    if isinstance(v, OSeq):
        return ["<oseq>"] + [str(s[1]) if s[0] == "o" else describe(s[1], depth + 1) for s in v.segs]
    if hasattr(v, "t"):
        return "<%s>" % z3.simplify(v.t).sexpr()[:200]
    try:
        json.dumps(v)
        return v
    except TypeError:
        return repr(v)


class Verifier:
    def __init__(self, prog, registry, intrinsics=None, loop_handler=None):
        self.prog = prog
        self.registry = registry
        self.intrinsics = intrinsics or {}
        self.loop_handler = loop_handler
        self.SymGen = make_symgen()
        self.modular = {}
        for C in registry:
            if C.modular:
                self.modular.setdefault(C.fn, C)

    # ---- modular call: callee replaced by its spec, its `requires` checked at the call site
    def contract_hooks(self, current_fn):
        hooks = {}
        for key, C in self.modular.items():
            if key == current_fn:
                continue
            hooks[key] = self._make_hook(C)
        return hooks

    def _make_hook(self, C):
        spec = contract_fref(self.prog, C, "spec")
        req = contract_fref(self.prog, C, "requires")

        def hook(I, fref, args, kwargs):
            if spec is None:
                return NotImplemented
            if req is not None:
                if not I.truth(I.call_ref(req, [C.case] + list(args), kwargs, top=True)):
                    raise CalleePreconditionFailed(C.name)
            return (I.call_ref(spec, [C.case] + list(args), kwargs, top=True),)
        return hook

    def run_contract_path(self, C, ctx):
        I = Interp(self.prog, ctx, contracts=self.contract_hooks(C.fn), intrinsics=self.intrinsics)
        I.loop_handler = self.loop_handler
        G = self.SymGen(I)
        I.G = G
        I.fkeys = {}
        # stub_calls = {callee key: tag}: inside THIS contract the callee is abstract - a call records the ghost event
        # [tag, *args] and yields an opaque result that is a function of the arguments (the reference uses ghost_call)
        for skey, stag in (getattr(C.cls, "stub_calls", None) or {}).items():
            def _mk(tag):
                # tag | (tag, [attribute names]): the second form records the named attributes of the first argument
                # AS THEY ARE AT THE CALL (the object itself would be compared in its final state)
                attrs = None
                if isinstance(tag, (tuple, list)):
                    tag, attrs = tag[0], list(tag[1])

                def hook(I_, fref, a, kw):
                    from .values import Opaque
                    if attrs is not None:
                        snap = [I_.deepcopy(getattr(a[0], n, None), {}) for n in attrs] + list(a[1:])
                        I_.ghost.append([tag] + snap + [kw[k] for k in sorted(kw)])
                        return (Opaque(tag, snap),)
                    I_.ghost.append([tag] + list(a) + [kw[k] for k in sorted(kw)])
                    return (Opaque(tag, list(a)),)
                return hook
            if isinstance(stag, str) and stag.startswith("stub_") and contract_fref(self.prog, C, stag) is not None:
                # contract-local summary: a reference function of the contract class stands for the callee (its effects
                # and result), inside this contract only
                def _mk_local(ref):
                    def hook(I_, fref, a, kw):
                        return (I_.call_ref(ref, [C.case] + list(a), kw, top=True),)
                    return hook
                I.contracts[skey] = _mk_local(contract_fref(self.prog, C, stag))
                continue
            I.contracts[skey] = _mk(stag)
        for lk, ls in (getattr(C.cls, "loops", None) or {}).items():
            fk, ordinal = lk.rsplit("#", 1)
            I.loop_specs[(fk, int(ordinal))] = dict(contract=C, inv=contract_fref(self.prog, C, ls.get("inv") or ls.get("pred")), temps=ls.get("temps", ()), reads=ls.get("reads", ()),
                                                    kind=ls.get("kind"))
        built = C.build(G)
        args, kwargs, ghost = built.get("args", []), built.get("kwargs", {}), built.get("ghost", {})
        req = contract_fref(self.prog, C, "requires")
        if req is not None:
            if not I.truth(I.call_ref(req, [C.case] + list(args), dict(kwargs), top=True)):
                raise Infeasible()
        memo = {}
        old = [I.deepcopy(a, memo) for a in args]
        memo = {}
        argsB = [I.deepcopy(a, memo) for a in args]
        kwB = {k: I.deepcopy(v, memo) for k, v in kwargs.items()}
        fref = self.prog.func(C.fn)
        rec = dict(kind="ok", inlined=None, goal=True, detail=None)
        I.ghost = []
        I.side = "fn"
        try:
            result = I.call_ref(fref, list(args), dict(kwargs), top=True)
            outcome = ("ok", result)
        except PyRaise as e:
            outcome = ("raise", e)
        except LoopObligation as lo:
            rec.update(kind=lo.kind, goal=lo.goal, detail=lo.detail)
            rec["inlined"] = sorted(I.inlined)
            rec["via_contract"] = sorted(I.via_contract)
            return rec
        except CalleePreconditionFailed as e:
            rec.update(kind="callee-pre", goal=False, detail="precondition of %s not established at call site" % e.callee)
            rec["inlined"] = sorted(I.inlined)
            rec["via_contract"] = sorted(I.via_contract)
            return rec
        rec["inlined"] = sorted(I.inlined)
        rec["via_contract"] = sorted(I.via_contract)
        goals = []
        spec = contract_fref(self.prog, C, "spec")
        ens = contract_fref(self.prog, C, "ensures")
        if (spec is None and C.has("spec")) or (ens is None and C.has("ensures")) or (spec is None and ens is None and not C.raises):
            raise Unsupported("contract %s has no locatable spec / ensures (vacuous)" % C.name)
        if outcome[0] == "raise":
            e = outcome[1]
            if any(e.isa(n) for n in C.raises):
                exp = None
                if spec is not None:
                    try:
                        I.call_ref(spec, [C.case] + argsB, kwB, top=True)
                        rec.update(kind="raise-vs-spec", goal=False, detail="function raises %s where the reference returns" % e.name)
                        return rec
                    except PyRaise as e2:
                        rec.update(kind="raise", goal=e2.name == e.name, detail="raises %s (reference: %s)" % (e.name, e2.name))
                        return rec
                rec.update(kind="raise", goal=True, detail="raises %s (allowed)" % e.name)
                return rec
            rec.update(kind="raise", goal=False, detail="raises %s: %s" % (e.name, describe(e.msg)))
            return rec
        result = outcome[1]
        ghost_fn, I.ghost = I.ghost, []
        I.side = "spec"
        if spec is not None:
            try:
                exp = I.call_ref(spec, [C.case] + argsB, kwB, top=True)
            except PyRaise as e2:
                rec.update(kind="spec-raise", goal=False, detail="function returns where the reference raises %s" % e2.name)
                return rec
            g1 = state_eq(I, result, exp)
            if getattr(C.cls, "observable", None) == "result":
                # grammar action: PLY pops the right-hand-side symbols after the reduction, so the
                # observable post-state is self and p[0] (with everything reachable from it)
                g2 = state_eq(I, [_result_view(a) for a in args], [_result_view(a) for a in argsB])
            else:
                # arguments passed by keyword are arguments too: their post-state is compared as well
                g2 = state_eq(I, list(args) + [kwargs[k] for k in sorted(kwargs)], argsB + [kwB[k] for k in sorted(kwargs)])
            goals += [g1, g2]
            if ghost_fn or I.ghost:
                g4 = state_eq(I, ghost_fn, I.ghost)
                goals.append(g4)
                if g4 is False:
                    rec["detail"] = dict(effects=describe(ghost_fn), expected_effects=describe(I.ghost))
            if g1 is False or g2 is False:
                rec["detail"] = dict(result=describe(result), expected=describe(exp), post=describe(list(args)), post_expected=describe(argsB))
        if ens is not None:
            try:
                g3 = I.to_sbool(I.call_ref(ens, [C.case, old, list(args), result], {}, top=True))
            except PyRaise as pe:
                # the postcondition cannot even be evaluated on this outcome (a key it speaks about is missing, ...)
                g3 = False
                rec["detail"] = dict(ensures_raises="%s: %s" % (pe.name, describe(pe.msg)), result=describe(result), post=describe(list(args)))
            goals.append(g3)
            if g3 is False and rec["detail"] is None:
                rec["detail"] = dict(result=describe(result), post=describe(list(args)), old=describe(old))
        goal = I.and_all(goals)
        rec["goal"] = goal
        if rec["detail"] is None and goal is not True:
            rec["detail"] = dict(result=describe(result), post=describe(list(args)))
        return rec

    def verify(self, C, timeout=20, max_paths=4000):
        """returns list of obligation dicts (JSON-able)"""
        t0 = time.time()
        out = []

        def run(ctx):
            try:
                return self.run_contract_path(C, ctx)
            except Unsupported as e:
                if os.environ.get("VERIF_TRACE"):
                    traceback.print_exc()
                return dict(kind="unsupported", goal=None, detail=str(e), inlined=None)
        try:
            self.prog.func(C.fn)
        except KeyError:
            # the function this contract is attached to no longer exists under that name (renamed / removed / inlined):
            # nothing can be said deductively - never a verdict; the property's bounded stand-in still runs
            return [dict(name=C.name + "#attach", contract=C.name, fn=C.fn, props=list(C.props), status="out-of-reach",
                         detail="function %s not found in the current source: the contract is not attached to anything" % C.fn, seconds=0.0)]
        try:
            paths = smt.explore(run, (), max_paths=max_paths)
        except RuntimeError as e:
            # path explosion / exploration budget: the function is out of the verifier's reach in this run (never a verdict)
            return [dict(name=C.name + "#explore", contract=C.name, fn=C.fn, props=list(C.props), status="out-of-reach", detail=str(e), seconds=time.time() - t0)]
        except Exception as e:
            return [dict(name=C.name + "#explore", contract=C.name, fn=C.fn, status="error",
                         detail="".join(traceback.format_exception_only(type(e), e)) + traceback.format_exc()[-1500:], seconds=time.time() - t0)]
        cover = False
        for k, (ctx, rec) in enumerate(paths):
            name = "%s#%d" % (C.name, k)
            ob = dict(name=name, contract=C.name, fn=C.fn, props=list(C.props), kind=rec["kind"], decisions=[bool(d) for d in ctx.decisions],
                      inlined=rec.get("inlined"), via_contract=rec.get("via_contract"))
            if rec["kind"] == "unsupported":
                ob.update(status="out-of-reach", detail=rec["detail"], seconds=0.0, solver=None)
                out.append(ob)
                continue
            cover = True
            goal = rec["goal"]
            g = goal.t if isinstance(goal, SBool) else bool(goal)
            r = smt.discharge(ctx.pc, g, timeout=timeout)
            ob.update(status={"unsat": "discharged", "sat": "refuted", "unknown": "undecided"}[r["status"]],
                      solver=r["solver"], seconds=round(r["seconds"], 3))
            if r["status"] != "unsat":
                ob["detail"] = rec["detail"]
                ob["model"] = r.get("model")
                if r["status"] == "unknown":
                    ob["solver_detail"] = r.get("detail")
            out.append(ob)
        if not paths or not cover:
            out.append(dict(name=C.name + "#cover", contract=C.name, fn=C.fn, props=list(C.props), status="vacuous" if not paths else "out-of-reach",
                            detail="no feasible path satisfies the precondition" if not paths else "every path out of reach", seconds=0.0))
        return out


# ------------------------------------------------------------------ replay on the real code

def replay(C, model, tag):
    """Replay a counter-model on the real function under /venv/bin/python (scratch copy).
    Returns dict(reproduced=bool, ...)."""
    req = dict(module=C.module, cls=C.clsname, case=C.case_name, contract=C.name, model=model or {})
    path = os.path.join(os.environ.get("VERIF_OUT") or VERIF, "replays", "%s.json" % tag)
    os.makedirs(os.path.dirname(path), exist_ok=True)
    if getattr(C.cls, "abstract_callees", False):
        # skeleton contract: callees are replaced by opaque results, so there is no concrete input to run;
        # the replay file carries the failed obligation and the verifier's counter-model
        res = dict(reproduced=None, skipped="abstract-callees", why=["the contract abstracts its callees: the counter-model assigns the unmodelled results, not inputs"])
        req["replay"] = res
        with open(path, "w") as f:
            json.dump(req, f, indent=1, default=str)
        return res, path
    with open(path, "w") as f:
        json.dump(req, f, indent=1, default=str)
    env = dict(os.environ, PYTHONPATH=scratch_dir() + os.pathsep + VERIF, PYTHONDONTWRITEBYTECODE="1")
    try:
        r = subprocess.run(["/venv/bin/python", os.path.join(VERIF, "pyvc", "replay_native.py"), path],
                           capture_output=True, text=True, timeout=120, env=env)
        try:
            res = json.loads(r.stdout.strip().splitlines()[-1])
        except Exception:
            res = dict(reproduced=None, error=(r.stdout + r.stderr)[-1500:])
    except subprocess.TimeoutExpired:
        res = dict(reproduced=None, error="replay timeout")
    req["replay"] = res
    req["command"] = "PYTHONPATH=<scratch copy of /repo>:/verif /venv/bin/python /verif/pyvc/replay_native.py %s" % path
    with open(path, "w") as f:
        json.dump(req, f, indent=1, default=str)
    return res, path
