"""Input builders used by contracts. Two implementations of one interface:

SymGen  - symbolic mode (inside the verifier): named SMT symbols, MDict, OSeq, PProd, Obj
ConcGen - concrete mode (replay / monitors, pure Python, no z3): values from a model

A contract's `build(G)` is written once against this interface.
"""


class ConcGen:
    symbolic = False

    def __init__(self, model=None, real=None):
        self.model = dict(model or {})
        self.real = real or {}        # hooks to build real objects: 'parser', 'prod'
        self.used = {}

    def _get(self, name, default):
        if name in self.model:
            v = self.model[name]
        else:
            v = default
            # element of an instantiated opaque list: take the verifier's generic element "x:<loop tag>.<suffix>"
            parts = name.split(".")
            for cut in range(1, len(parts)):
                suffix = ".".join(parts[cut:])
                cands = [k for k in self.model if (k.startswith("x:") or k.startswith("hit:")) and k.endswith("." + suffix)]
                if cands and parts[cut - 1].isdigit() and int(parts[cut - 1]) == self.generic_index:
                    v = self.model[sorted(cands)[0]]
                    break
        self.used[name] = v
        return v

    generic_index = 0

    def exactly_one(self, flags):
        vals = [bool(self._get(f, False)) for f in flags]
        if sum(vals) != 1:
            for f in flags:
                self.model[f] = False
            pick = flags[[i for i, v in enumerate(vals) if v][0]] if any(vals) else flags[0]
            self.model[pick] = True

    def assume(self, cond):
        return None

    def str(self, name, pattern=None, default="x"):
        return self._get(name, default)

    def int(self, name, lo=None, hi=None, default=0):
        v = self._get(name, default if lo is None else max(default, lo))
        return v

    def bool(self, name, default=False):
        return bool(self._get(name, default))

    def choice(self, name, n):
        v = self._get(name, 0)
        return v if 0 <= v < n else 0

    def record(self, fixed, maybe=None):
        d = dict(fixed)
        for k, (flag, v) in (maybe or {}).items():
            if self.bool(flag):
                d[k] = v
        return d

    def prod(self, values, types=None):
        mk = self.real.get("prod")
        if mk is None:
            return [None] + list(values)
        return mk(values, types)

    def oseq(self, name, items=(), elem=None, min_len=0):
        """opaque list: instantiated with model length `len:<name>` (default 1, at least min_len)
        of elements built by elem(G, i)"""
        n = self._get("len:" + name, max(1, min_len))
        pre = [elem(self, "%s.%d" % (name, i)) for i in range(n)] if elem else []
        return pre + list(items)

    def obj(self, cls=None, **attrs):
        mk = self.real.get("obj")
        if mk is not None:
            return mk(cls, attrs)
        o = type("O", (), {})()
        o.__dict__.update(attrs)
        return o

    def parser(self, lexer=None, **attrs):
        return self.real["parser"](lexer or {}, attrs)

    def token(self, value, type="ID"):
        return self.real["token"](value, type)


def make_symgen():
    """imported lazily so that the native side never imports z3"""
    import z3
    from . import smt
    from .regex import regex_to_z3
    from .values import MDict, Obj, OSeq, PProd, SBool, SInt, SStr

    _alpha_cache = {}

    def alphabet_of(pattern):
        """characters that occur in some string of the pattern (exact, decided by z3 per printable character)"""
        if pattern not in _alpha_cache:
            rx = regex_to_z3(pattern)
            s = z3.String("alphabet!s")
            chars = set()
            for o in range(32, 127):
                sol = z3.Solver()
                sol.set("timeout", 2000)
                sol.add(z3.InRe(s, rx), z3.Contains(s, z3.StringVal(chr(o))))
                if sol.check() != z3.unsat:
                    chars.add(chr(o))
            _alpha_cache[pattern] = chars
        return _alpha_cache[pattern]

    _ne_cache = {}

    def never_empty(pattern):
        if pattern not in _ne_cache:
            sol = z3.Solver()
            sol.add(z3.InRe(z3.StringVal(""), regex_to_z3(pattern)))
            _ne_cache[pattern] = sol.check() == z3.unsat
        return _ne_cache[pattern]

    _edge_cache = {}

    def edge_blank(pattern):
        """(can a string of the pattern start with white space, can it end with white space) - decided by z3"""
        if pattern not in _edge_cache:
            rx = regex_to_z3(pattern)
            s = z3.String("edge!s")
            ws = z3.Union(*[z3.Re(c) for c in smt.WSCHARS])
            anyc = z3.Star(z3.AllChar(z3.ReSort(smt.S)))
            res = []
            for probe in (z3.Concat(ws, anyc), z3.Concat(anyc, ws)):
                sol = z3.Solver()
                sol.set("timeout", 3000)
                sol.add(z3.InRe(s, rx), z3.InRe(s, probe))
                res.append(sol.check() != z3.unsat)
            _edge_cache[pattern] = tuple(res)
        return _edge_cache[pattern]

    class SymGen:
        symbolic = True

        def __init__(self, interp):
            self.I = interp
            self.ctx = interp.ctx
            self.names = []
            self.elem_builders = {}

        def exactly_one(self, flags):
            bs = [z3.Bool(f) for f in flags]
            self.ctx.assume(z3.Or(*bs))
            for i in range(len(bs)):
                for j in range(i + 1, len(bs)):
                    self.ctx.assume(z3.Or(z3.Not(bs[i]), z3.Not(bs[j])))

        def str(self, name, pattern=None, default="x"):
            t = z3.String(name)
            self.names.append(name)
            self.ctx.assume(z3.InRe(t, smt.PRINTABLE))
            if pattern is not None:
                self.ctx.assume(z3.InRe(t, regex_to_z3(pattern)))
                if self.I.charsets is None:
                    self.I.charsets = {}
                self.I.charsets[name] = alphabet_of(pattern)
                if never_empty(pattern):
                    self.I.nonempty = set(self.I.nonempty) | {name}
                    lead, trail = edge_blank(pattern)
                    if not lead:
                        self.I.no_lead_ws = set(self.I.no_lead_ws) | {name}
                    if not trail:
                        self.I.no_trail_ws = set(self.I.no_trail_ws) | {name}
            return SStr(t)

        def int(self, name, lo=None, hi=None, default=0):
            t = z3.Int(name)
            self.names.append(name)
            if lo is not None:
                self.ctx.assume(t >= lo)
            if hi is not None:
                self.ctx.assume(t <= hi)
            return SInt(t)

        def bool(self, name, default=False):
            self.names.append(name)
            return SBool(z3.Bool(name))

        def choice(self, name, n):
            t = z3.Int(name)
            self.names.append(name)
            self.ctx.assume(z3.And(t >= 0, t < n))
            for i in range(n - 1):
                if self.ctx.branch(t == i):
                    return i
            self.ctx.assume(t == n - 1)
            return n - 1

        def record(self, fixed, maybe=None):
            d = MDict(fixed)
            for k, (flag, v) in (maybe or {}).items():
                dict.__setitem__(d, k, v)
                d.maybe[k] = z3.Bool(flag)
                self.names.append(flag)
            return d

        def prod(self, values, types=None):
            return PProd([None] + list(values))

        def oseq(self, name, items=(), elem=None, min_len=0):
            if min_len:
                self.ctx.assume(self.I.seq_len_term(("base", name)) >= min_len)
            self.ctx.assume(self.I.seq_len_term(("base", name)) >= 0)
            if elem is not None:
                self.elem_builders[name] = elem
            return OSeq([("o", ("base", name))] + [("i", x) for x in items])

        def obj(self, cls=None, **attrs):
            return Obj(cls, **attrs)

        def parser(self, lexer=None, **attrs):
            real = self.I.prog.real["simple_ddl_parser.ddl_parser"].DDLParser
            lx = Obj(None, **(lexer or {}))
            return Obj(real, lexer=lx, **attrs)

        def token(self, value, type="ID"):
            return Obj(None, value=value, type=type)

    return SymGen
