"""Property check driver:  python3-vt -m pyvc.check <PID> [quick|thorough]

exit 0 held / 1 violation (VIOLATION line) / 2 undecided with no stand-in / 3 checker crash
"""
import concurrent.futures as cf
import json
import multiprocessing as mp
import os
import subprocess
import sys
import time
import traceback

VERIF = os.path.dirname(os.path.dirname(os.path.abspath(__file__)))
sys.path.insert(0, VERIF)
# where evidence/ and replays/ are written (only the seeded-change harness redirects this)
OUT = os.environ.get("VERIF_OUT") or VERIF

from pyvc import props as P  # noqa: E402

_G = {}


def _init_worker():
    pass


def _verify_one(idx):
    from pyvc.engine import replay
    V, reg, timeout, pid = _G["V"], _G["reg"], _G["timeout"], _G["pid"]
    C = reg[idx]
    t0 = time.time()
    try:
        obs = V.verify(C, timeout=timeout)
    except Exception:
        return [dict(name=C.name + "#crash", contract=C.name, fn=C.fn, status="error", detail=traceback.format_exc()[-2000:], seconds=time.time() - t0)]
    need_enum = _G["tier"] == "thorough" or any(ob["status"] in ("undecided", "out-of-reach", "vacuous") for ob in obs)
    if any(ob["name"].endswith("#attach") for ob in obs):
        need_enum = False
    for ob in obs:
        if ob["status"] == "refuted":
            tag = "%s/%s" % (pid, _safe(ob["name"]))
            res, path = replay(C, ob.get("model"), tag)
            ob["replay"] = dict(path=path, reproduced=res.get("reproduced"), skipped=res.get("skipped"), why=res.get("why"), lifted=res.get("lifted"),
                                error=res.get("error"), observed=res.get("observed"), expected=res.get("expected"), inputs=res.get("inputs"))
            if res.get("reproduced") is not True and not res.get("skipped"):
                need_enum = True
    if getattr(C.cls, "abstract_callees", False):
        need_enum = False
    if need_enum:
        en = native_enum(C, 300 if _G["tier"] == "quick" else 3000, _G["seed"], pid)
        obs.append(dict(name=C.name + "#native-enum", contract=C.name, fn=C.fn, props=list(C.props), status="bounded", enum=en, seconds=0.0))
    return obs


def native_enum(C, n, seed, pid):
    """function-level BOUNDED stand-in / CPython cross-check: n random admissible inputs through the real function"""
    from pyvc.program import scratch_dir
    req = dict(mode="enumerate", module=C.module, cls=C.clsname, case=C.case_name, n=n, seed=seed)
    path = os.path.join(OUT, "replays", pid, "enum_" + _safe(C.name) + ".json")
    with open(path, "w") as f:
        json.dump(req, f)
    env = dict(os.environ, PYTHONPATH=scratch_dir() + os.pathsep + VERIF, PYTHONDONTWRITEBYTECODE="1")
    try:
        r = subprocess.run(["/venv/bin/python", os.path.join(VERIF, "pyvc", "replay_native.py"), path], capture_output=True, text=True, timeout=900, env=env)
        res = json.loads(r.stdout.strip().splitlines()[-1])
    except Exception as e:
        res = dict(error="%s %s" % (type(e).__name__, e))
    res["request"] = path
    if res.get("failures"):
        with open(path, "w") as f:
            json.dump(dict(req, result=res), f, indent=1, default=str)
    return res


def _safe(s):
    return "".join(c if c.isalnum() or c in "._-" else "_" for c in s)[:150]


def load_known():
    path = os.path.join(VERIF, "known_findings.json")
    if not os.path.exists(path):
        return []
    return json.load(open(path)).get("findings", [])


def known_match(kf_list, pid, ob=None, witness=None):
    """return the open known finding that lists this failing obligation / witness, or None"""
    for kf in kf_list:
        if kf.get("property") != pid or kf.get("status") != "open":
            continue
        m = kf.get("match", {})
        if ob is not None and "obligation_prefix" in m:
            if not ob["name"].startswith(m["obligation_prefix"]):
                continue
            return kf
        if witness is not None and "witness_class" in m:
            if witness.get("class") == m["witness_class"]:
                return kf
    return None


def main(argv):
    pid = argv[1]
    tier = argv[2] if len(argv) > 2 else os.environ.get("VERIF_TIER", "quick")
    if tier == "thorough":
        # deeper budgets: infeasible branches are pruned with a longer solver budget (fewer spurious paths when the machine
        # is busy) and a contract may explore for longer before it is declared out of reach
        os.environ.setdefault("VERIF_PRUNE_MS", "500")
        os.environ.setdefault("VERIF_EXPLORE_SECONDS", "900")
    seed = int(os.environ.get("VERIF_SEED", "0") or 0)
    t_start = time.time()
    cfg = P.PROPS[pid]
    evidence_path = os.path.join(OUT, "evidence", "%s.json" % pid)
    if os.path.exists(evidence_path):
        os.unlink(evidence_path)
    os.makedirs(os.path.join(OUT, "evidence"), exist_ok=True)
    os.makedirs(os.path.join(OUT, "replays", pid), exist_ok=True)

    from pyvc.program import Program
    from pyvc.engine import Verifier, load_contract_modules
    from pyvc.fold import INTRINSICS, loop_handler
    prog = Program()
    known = load_known()
    violations, known_hits, undecided, lines = [], [], [], []
    obligations = []
    functions = set()
    frame_functions = set()
    inlined, via = set(), set()
    solver_seconds = 0.0
    by_solver = {}

    # ---------------- (a) deductive obligations
    if cfg.get("contracts"):
        # every contract module is loaded: a contract takes part in each property its `props` names
        all_mods = sorted(f[:-3] for f in os.listdir(os.path.join(VERIF, "contracts")) if f.startswith(("c", "lexer")) and f.endswith(".py") and f[:-3] not in ("__init__",))
        registry = load_contract_modules(prog, [m for m in all_mods if m not in ("base", "lib")])
        reg = [C for C in registry if pid in C.props]
        V = Verifier(prog, registry, INTRINSICS, loop_handler)
        _G.update(V=V, reg=reg, timeout=20 if tier == "quick" else 120, pid=pid, tier=tier, seed=seed)
        ctx = mp.get_context("fork")
        with cf.ProcessPoolExecutor(max_workers=min(16, max(1, len(reg))), mp_context=ctx) as ex:
            for obs in ex.map(_verify_one, range(len(reg))):
                obligations.extend(obs)
        for ob in obligations:
            functions.add(ob["fn"])
            inlined.update(ob.get("inlined") or [])
            via.update(ob.get("via_contract") or [])
            solver_seconds += ob.get("seconds") or 0.0
            if ob["status"] == "discharged":
                by_solver[ob.get("solver")] = by_solver.get(ob.get("solver"), 0) + 1

    # callees replaced by an ASSUMED contract (an opaque result that is a function of the arguments): unchecked assumptions
    assumed_callees = set()
    if cfg.get("contracts"):
        assumed_callees = {C.fn for C in registry if C.modular and not C.props}
        for C in reg:
            assumed_callees.update((getattr(C.cls, "stub_calls", None) or {}).keys())

    # ---------------- (b) frame obligations
    frame_obs = []
    if cfg.get("frames"):
        from pyvc import frames
        frame_obs = frames.run(prog, pid, cfg["frames"])
        for ob in frame_obs:
            obligations.append(ob)
            frame_functions.update(ob.get("functions", []))
            if ob["status"] == "discharged":
                by_solver["frame-analysis"] = by_solver.get("frame-analysis", 0) + 1

    # ---------------- verdict per obligation
    crashed = [ob for ob in obligations if ob["status"] == "error"]
    enum_by_contract = {}
    for ob in obligations:
        if ob["status"] == "bounded":
            enum_by_contract[ob["contract"]] = ob["enum"]
    enum_runs = [ob for ob in obligations if ob["status"] == "bounded"]
    obligations = [ob for ob in obligations if ob["status"] != "bounded"]
    for eo in enum_runs:
        en = eo["enum"]
        if en.get("error"):
            crashed.append(dict(name=eo["name"], status="error", detail=en["error"]))
        for fl in en.get("failures", []):
            w = dict(name=eo["name"], detail=fl)
            kf = known_match(known, pid, ob=w)
            if kf:
                known_hits.append((kf, w))
            else:
                violations.append((w, en.get("request"), ""))
            break
    for ob in obligations:
        st = ob["status"]
        if st == "discharged":
            continue
        if st == "refuted":
            rp = ob.get("replay") or {}
            if ob.get("frame"):
                kf = known_match(known, pid, ob=ob)
                if kf:
                    known_hits.append((kf, ob))
                else:
                    violations.append((ob, ob.get("replay_path"), "no-failing-input-found" if not ob.get("demonstrated") else ""))
                continue
            if rp.get("reproduced") is True:
                kf = known_match(known, pid, ob=ob)
                if kf:
                    known_hits.append((kf, ob))
                else:
                    violations.append((ob, rp.get("path"), ""))
            elif rp.get("skipped") == "abstract-callees":
                kf = known_match(known, pid, ob=ob)
                if kf:
                    known_hits.append((kf, ob))
                else:
                    violations.append((ob, rp.get("path"), "no-failing-input-found"))
            elif rp.get("reproduced") is False:
                ob["status"] = "undecided"
                ob["note"] = "counter-model did not reproduce on the real code (abstraction artefact): treated as undecided"
                undecided.append(ob)
            else:
                # the replay itself could not be run to completion (time-out under load, ...): no verdict from this model
                ob["status"] = "undecided"
                ob["note"] = "the counter-model could not be replayed (%s): treated as undecided" % str(rp.get("error"))[:200]
                undecided.append(ob)
        elif st in ("undecided", "out-of-reach", "vacuous"):
            undecided.append(ob)

    # ---------------- (c) bounded stand-in (real code, run-time contracts) under /venv/bin/python
    bounded = None
    if cfg.get("bounded"):
        from pyvc.program import scratch_dir
        out_json = os.path.join(OUT, "replays", pid, "bounded_%s.json" % tier)
        env = dict(os.environ, PYTHONPATH=scratch_dir() + os.pathsep + VERIF, PYTHONDONTWRITEBYTECODE="1",
                   VERIF_SEED=str(seed), VERIF_TIER=tier)
        cmd = ["/venv/bin/python", "-m", "bounded.run", pid, tier, out_json]
        try:
            r = subprocess.run(cmd, cwd=VERIF, env=env, capture_output=True, text=True, timeout=cfg.get("bounded_timeout", 3000))
            if r.returncode not in (0, 1) or not os.path.exists(out_json):
                print("bounded stand-in crashed:\n" + (r.stdout + r.stderr)[-3000:])
                crashed.append(dict(name="bounded:%s" % pid, status="error", detail=(r.stdout + r.stderr)[-1500:]))
            else:
                bounded = json.load(open(out_json))
        except subprocess.TimeoutExpired:
            crashed.append(dict(name="bounded:%s" % pid, status="error", detail="timeout"))
        if bounded:
            for w in bounded.get("failures", []):
                kf = known_match(known, pid, witness=w)
                if kf:
                    known_hits.append((kf, dict(name="bounded:" + w.get("class", "?"), witness=w)))
                else:
                    violations.append((dict(name="bounded:%s" % w.get("class", "?"), detail=w), w.get("replay"), ""))

    # undecided deductive obligations: covered by the bounded stand-in if there is one and it ran
    unresolved = []
    for ob in undecided:
        en = enum_by_contract.get(ob.get("contract"))
        if en is not None and not en.get("error") and en.get("admitted", 0) > 0:
            ob["fallback"] = "BOUNDED: %d random admissible inputs through the real function satisfied the contract (%d distinct)" % (en.get("admitted", 0), en.get("distinct", 0))
        elif bounded is not None and not ob.get("frame"):
            ob["fallback"] = "bounded stand-in of the property (see coverage.bounded)"
        else:
            unresolved.append(ob)

    # ---------------- report
    # obligations matched by an OPEN known finding are reported (KNOWN-FINDING line, coverage.known_finding_obligations) and
    # are not part of the discharged / generated count: they are recorded refutations, not proof obligations of the claim
    kf_names = {ob.get("name") for kf, ob in known_hits if isinstance(ob, dict) and not str(ob.get("name", "")).startswith("bounded:")}
    n_ob = len([o for o in obligations if o["status"] != "error" and o.get("name") not in kf_names])
    n_dis = len([o for o in obligations if o["status"] == "discharged"])
    seen_kf = set()
    for kf, ob in known_hits:
        if kf["id"] not in seen_kf:
            seen_kf.add(kf["id"])
            print("KNOWN-FINDING: property=%s %s" % (pid, kf["text"]))
    for ob, path, suffix in violations:
        if not path:
            path = os.path.join(OUT, "replays", pid, _safe(ob["name"]) + ".json")
            with open(path, "w") as f:
                json.dump(ob, f, indent=1, default=str)
        print(("VIOLATION property=%s replay=%s obligation=%s %s" % (pid, path, ob["name"], suffix)).rstrip())
    for ob in unresolved[:20]:
        print("UNDECIDED %s: %s %s" % (ob["name"], ob["status"], str(ob.get("detail"))[:300]))
    for ob in crashed[:10]:
        print("CHECKER-ERROR %s: %s" % (ob.get("name"), str(ob.get("detail"))[:1500]))

    level = cfg["level"]
    samples = []
    for ob in obligations[:400]:
        if ob["status"] == "discharged" and len(samples) < 6:
            samples.append(dict(obligation=ob["name"], status=ob["status"], solver=ob.get("solver"), seconds=ob.get("seconds")))
    for ob in obligations:
        if ob["status"] != "discharged" and len(samples) < 14:
            samples.append(dict(obligation=ob["name"], status=ob["status"], detail=str(ob.get("detail"))[:300], fallback=ob.get("fallback")))
    own_contract = {C.fn for C in (reg if cfg.get("contracts") else []) if not C.modular}
    coverage = dict(
        obligations=n_ob, discharged=n_dis,
        checker_cmd="cd /verif && ./check %s %s" % (pid, tier),
        trusted_base=P.TRUSTED_BASE + cfg.get("trusted", []),
        functions_under_contract=sorted(functions),
        functions_under_frame_obligations=sorted(frame_functions - functions),
        inlined_callees=sorted(inlined - functions), callees_via_contract=sorted(via),
        # a callee abstracted inside some contract AND verified by a contract of its own in this same check is modular
        # verification proper; one without a contract of its own is an unchecked assumption
        abstracted_callees_with_own_contract=sorted(v for v in via if v in assumed_callees and v in own_contract),
        assumed_callee_contracts=sorted(v for v in via if v in assumed_callees and v not in own_contract),
        discharged_by=by_solver, solver_seconds=round(solver_seconds, 2),
        not_discharged=[dict(obligation=o["name"], status=o["status"], reason=str(o.get("detail"))[:200], fallback=o.get("fallback")) for o in obligations if o["status"] != "discharged" and o.get("name") not in kf_names][:60],
        samples=samples,
        explanation=cfg.get("explanation", ""),
        extraction_drops=P.EXTRACTION_DROPS,
        known_findings_reported=sorted(seen_kf),
        known_finding_obligations=sorted(n for n in kf_names if n),
        function_level_bounded=[dict(contract=e["contract"], admitted=e["enum"].get("admitted"), distinct=e["enum"].get("distinct"), failures=len(e["enum"].get("failures", []))) for e in enum_runs],
    )
    if bounded:
        coverage["bounded"] = {k: v for k, v in bounded.items() if k != "failures"}
        coverage["bounded"]["label"] = "BOUNDED stand-in (run-time contracts on the real code); never counted as proved"
        coverage["evaluations"] = bounded.get("evaluations", 0)
        coverage["distinct_nontrivial"] = bounded.get("distinct_nontrivial", 0)
        coverage["rule"] = bounded.get("rule", "")
        coverage["samples"] = samples + bounded.get("samples", [])[:6]
    if level == "proof" and n_dis != n_ob:
        # an obligation of a proof-level claim was not discharged in this run (solver budget, out-of-reach after a change):
        # this run is not reported at proof level
        level = "other"
        coverage["explanation"] = ("NOT AT PROOF LEVEL IN THIS RUN: %d of %d obligations were not discharged (see not_discharged; each is covered only by the "
                                   "BOUNDED fallback named there). " % (n_ob - n_dis, n_ob)) + coverage.get("explanation", "")
    ev = dict(property_id=pid, tier=tier, seed=seed, level=level, coverage=coverage,
              assumptions=P.ASSUMPTIONS + cfg.get("assumptions", []) + ["assumed (unverified) contract on callee %s: its result is an uninterpreted function of its arguments" % v
                                                                          for v in sorted(via) if v in assumed_callees and v not in own_contract], wall_s=round(time.time() - t_start, 2),
              violations=len(violations))
    with open(evidence_path, "w") as f:
        json.dump(ev, f, indent=1, default=str)
    print("%s %s: obligations=%d discharged=%d undecided=%d violations=%d known=%d bounded=%s wall=%.1fs" % (
        pid, tier, n_ob, n_dis, len(undecided), len(violations), len(seen_kf),
        (bounded or {}).get("evaluations"), time.time() - t_start))
    if crashed:
        return 3
    if violations:
        return 1
    if unresolved:
        return 2
    if n_ob == 0 and not bounded:
        print("CHECKER-ERROR zero obligations generated")
        return 3
    return 0


if __name__ == "__main__":
    try:
        rc = main(sys.argv)
    except SystemExit:
        raise
    except Exception:
        traceback.print_exc()
        rc = 3
    sys.exit(rc)
