"""Value model of the symbolic interpreter.

Containers are native Python lists / dicts / tuples (object identity, aliasing
and in-place mutation are therefore exact); leaves may be symbolic.
"""
import z3


class Unsupported(Exception):
    """Construct outside the modelled subset: function is out-of-reach."""


class Infeasible(Exception):
    pass


class PyRaise(Exception):
    """A Python exception raised by the interpreted program."""

    def __init__(self, name, msg=None, bases=()):
        Exception.__init__(self, name, msg)
        self.name = name
        self.msg = msg
        self.bases = tuple(bases)  # names of base classes (for except matching)

    def isa(self, clsname):
        return clsname in ("Exception", "BaseException", self.name) or clsname in self.bases


BUILTIN_EXC_BASES = {
    "KeyError": ("LookupError",), "IndexError": ("LookupError",),
    "ValueError": (), "TypeError": (), "AttributeError": (),
    "ZeroDivisionError": ("ArithmeticError",), "StopIteration": (),
    "AssertionError": (), "NotImplementedError": ("RuntimeError",),
}


def pyraise(name, msg=None):
    return PyRaise(name, msg, BUILTIN_EXC_BASES.get(name, ()))


class Sym:
    __slots__ = ("t",)

    def __init__(self, t):
        self.t = t

    def __repr__(self):
        return "%s(%s)" % (type(self).__name__, self.t)

    # symbolic leaves must never be compared / hashed natively by accident
    def __eq__(self, other):
        raise Unsupported("native == on symbolic value")

    def __hash__(self):
        raise Unsupported("native hash of symbolic value")

    def __bool__(self):
        raise Unsupported("native truth test on symbolic value")


class SStr(Sym):
    # concatenation is allowed natively so that contract builders can assemble inputs ("[" + core + "]")
    def __add__(self, other):
        return SStr(z3.Concat(strterm(self), strterm(other)))

    def __radd__(self, other):
        return SStr(z3.Concat(strterm(other), strterm(self)))


class SInt(Sym):
    pass


class SBool(Sym):
    pass


def is_sym(v):
    return isinstance(v, Sym)


def strterm(v):
    if isinstance(v, SStr):
        return v.t
    if isinstance(v, str):
        return z3.StringVal(v)
    raise Unsupported("string term of %r" % (type(v).__name__,))


def intterm(v):
    if isinstance(v, SInt):
        return v.t
    if isinstance(v, bool):
        return z3.IntVal(int(v))
    if isinstance(v, int):
        return z3.IntVal(v)
    raise Unsupported("int term of %r" % (type(v).__name__,))


def boolterm(v):
    if isinstance(v, SBool):
        return v.t
    if isinstance(v, bool):
        return z3.BoolVal(v)
    raise Unsupported("bool term of %r" % (type(v).__name__,))


class PProd:
    """Model of ply.yacc.YaccProduction: p[0..n] backed by a slice of values."""

    def __init__(self, values):
        self.slice = list(values)

    def __repr__(self):
        return "PProd(%r)" % (self.slice,)


class Obj:
    """Generic object (self, lexer, token, dataclass instance)."""

    def __init__(self, cls=None, **attrs):
        object.__setattr__(self, "_cls", cls)
        self.__dict__.update(attrs)

    def __repr__(self):
        return "Obj<%s>(%s)" % (getattr(self._cls, "__name__", self._cls),
                                ", ".join("%s=%r" % kv for kv in self.__dict__.items() if kv[0] != "_cls"))


class MDict(dict):
    """dict some of whose keys are only *maybe* present: maybe[key] is a z3 Bool
    (present iff true); resolved lazily (forking) when the key is first touched."""

    def __init__(self, *a, **kw):
        dict.__init__(self, *a, **kw)
        self.maybe = {}


class OSeq:
    """List with opaque parts: segs = [('o', term) | ('i', value)].
    term is a hashable opaque-sequence term:
      ('base', name) | ('map', fkey, term) | ('filter', fkey, term) | ('flat', fkey, term)
    """

    def __init__(self, segs):
        self.segs = list(segs)

    def __repr__(self):
        return "OSeq(%r)" % (self.segs,)


class Opaque:
    """Uninterpreted value f(args): equal iff same f and equal args (structural)."""

    def __init__(self, fn, args=()):
        self.fn, self.args = fn, tuple(args)

    def __repr__(self):
        return "Opaque(%s%r)" % (self.fn, self.args)


class Closure:
    def __init__(self, node, env, module, name=None, self_obj=None):
        self.node, self.env, self.module, self.name = node, env, module, name

    def __repr__(self):
        return "<Closure %s@%s:%s>" % (self.name or "lambda", self.module, getattr(self.node, "lineno", "?"))


class BoundMethod:
    def __init__(self, fref, obj):
        self.fref, self.obj = fref, obj


class ModRef:
    def __init__(self, name):
        self.name = name

    def __repr__(self):
        return "<ModRef %s>" % self.name


class Builtin:
    def __init__(self, name):
        self.name = name

    def __repr__(self):
        return "<builtin %s>" % self.name


class Method:
    """method of a built-in value (str/list/dict/...)"""

    def __init__(self, obj, name):
        self.obj, self.name = obj, name


class ExcClass:
    def __init__(self, name, bases=()):
        self.name, self.bases = name, tuple(bases)
